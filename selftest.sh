#!/usr/bin/env bash
# Self-tests of the simulator itself.  Usage (through ./check): ./check selftest determinism [N]
set -u
BIN="$1"; shift
what="${1:-determinism}"; shift || true
case "$what" in
  determinism)
    N="${1:-2000}"
    tmp="$(mktemp -d "${TMPDIR:-/var/tmp}/flipdot-selftest.XXXXXX")"
    trap 'rm -rf "$tmp"' EXIT
    fail=0
    for scn in $("$BIN" list | awk '/^    /{print $1}'); do
      n="$N"
      case "$scn" in
        c14-*|c17-twin) n=$((N*5));;      # thread-scheduled: where an uncontrolled wake-up would hide
        c12-flood|c15-compositions|c02-*) n=$((N/50+4));;
      esac
      VERIF_WORKERS=16 "$BIN" hashes "$scn" "$n" > "$tmp/a" || { echo "FAIL $scn (run a)"; fail=1; continue; }
      VERIF_WORKERS=16 "$BIN" hashes "$scn" "$n" > "$tmp/b" || { echo "FAIL $scn (run b)"; fail=1; continue; }
      VERIF_WORKERS=4  "$BIN" hashes "$scn" "$n" > "$tmp/c" || { echo "FAIL $scn (run c)"; fail=1; continue; }
      VERIF_WORKERS=1  "$BIN" hashes "$scn" "$n" > "$tmp/d" || { echo "FAIL $scn (run d)"; fail=1; continue; }
      # the same scenario with the Trace logger installed (run indices with bit 40 set)
      VERIF_WORKERS=16 "$BIN" hashes "$scn" "$((n/4+1))" quick logging > "$tmp/la" || { echo "FAIL $scn (logging run a)"; fail=1; continue; }
      VERIF_WORKERS=3  "$BIN" hashes "$scn" "$((n/4+1))" quick logging > "$tmp/lb" || { echo "FAIL $scn (logging run b)"; fail=1; continue; }
      if ! cmp -s "$tmp/la" "$tmp/lb"; then
        echo "FAIL $scn: event-log hashes differ with the logger installed"
        fail=1
      fi
      if cmp -s "$tmp/a" "$tmp/b" && cmp -s "$tmp/a" "$tmp/c" && cmp -s "$tmp/a" "$tmp/d"; then
        echo "ok   $scn: $n runs x 4 processes (16/16/4/1 workers): identical event-log hashes ($(sort -u -k2 "$tmp/a" | wc -l) distinct)"
      else
        echo "FAIL $scn: event-log hashes differ between processes / worker counts"
        diff "$tmp/a" "$tmp/d" | head -5
        fail=1
      fi
    done
    exit $fail
    ;;
  sensitivity)
    # every patch of /verif/mutants against every check (scratch worktree under /var/tmp, removed afterwards)
    exec python3 "$(dirname "$0")/mutants/run.py" "$@"
    ;;
  seeded)
    exec python3 "$(dirname "$0")/seeded/evaluate.py" run "$@"
    ;;
  *)
    echo "unknown selftest '$what'" >&2
    exit 2
    ;;
esac
