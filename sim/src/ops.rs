//! Controller workload: operations of the real `Sign` API, drawn from the tape.

use flipdot::{Sign, SignError};
use flipdot_core::{Page, PageFlipStyle, SignType};

use crate::core::Cx;
use crate::gens;

#[derive(Clone, Debug)]
pub enum Op {
    Configure,
    ConfigureIfNeeded,
    SendPages(Vec<Page<'static>>),
    Show,
    LoadNext,
    ShutDown,
}

impl Op {
    pub fn name(&self) -> String {
        match self {
            Op::Configure => "configure".into(),
            Op::ConfigureIfNeeded => "configure_if_needed".into(),
            Op::SendPages(p) => format!("send_pages({} pages: ids {:?})", p.len(), p.iter().map(|p| p.id().0).collect::<Vec<_>>()),
            Op::Show => "show_loaded_page".into(),
            Op::LoadNext => "load_next_page".into(),
            Op::ShutDown => "shut_down".into(),
        }
    }

    pub fn code(&self) -> u64 {
        match self {
            Op::Configure => 0,
            Op::ConfigureIfNeeded => 1,
            Op::SendPages(p) => 10 + p.len() as u64,
            Op::Show => 2,
            Op::LoadNext => 3,
            Op::ShutDown => 4,
        }
    }
}

/// Outcome class of an operation, comparable across transports.
#[derive(Clone, Debug, PartialEq, Eq, Hash)]
pub enum Outcome {
    Ok,
    OkStyle(bool), // true = automatic
    UnexpectedResponse,
    Bus,
    Other,
}

impl Outcome {
    pub fn is_ok(&self) -> bool {
        matches!(self, Outcome::Ok | Outcome::OkStyle(_))
    }
}

pub fn gen_op(cx: &Cx, t: SignType, max_pages: u64) -> Op {
    match cx.draw(6) {
        0 => Op::SendPages(gens::pages(cx, t, max_pages)),
        1 => Op::Configure,
        2 => Op::Show,
        3 => Op::LoadNext,
        4 => Op::ConfigureIfNeeded,
        _ => Op::ShutDown,
    }
}

/// `send_pages` takes any `IntoIterator` whose iterator is `Clone`. Which kind of iterator the
/// page list is handed over as is a deterministic function of the list itself (so that plans made
/// ahead of time and twins agree): a slice iterator, or one of several lazy adaptors whose
/// `size_hint` lower bound is 0 although they yield every page.
fn iter_kind(pages: &[Page<'static>]) -> usize {
    (pages.len() + pages.first().map(|p| usize::from(p.id().0)).unwrap_or(0)) % 10
}

/// Like `apply`, but `probe` is called every time the page list is advanced (a caller's lazy page
/// source may look at anything, including the bus the sign is on).
pub fn apply_probed(sign: &Sign, op: &Op, probe: &dyn Fn()) -> Outcome {
    match op {
        Op::SendPages(p) => {
            let r = sign.send_pages(p.iter().inspect(|_| probe()));
            match r {
                Ok(s) => Outcome::OkStyle(s == PageFlipStyle::Automatic),
                Err(SignError::UnexpectedResponse { .. }) => Outcome::UnexpectedResponse,
                Err(SignError::Bus { .. }) => Outcome::Bus,
                Err(_) => Outcome::Other,
            }
        }
        other => apply(sign, other),
    }
}

pub fn apply(sign: &Sign, op: &Op) -> Outcome {
    fn cls<T>(r: Result<T, SignError>, ok: impl FnOnce(T) -> Outcome) -> Outcome {
        match r {
            Ok(v) => ok(v),
            Err(SignError::UnexpectedResponse { .. }) => Outcome::UnexpectedResponse,
            Err(SignError::Bus { .. }) => Outcome::Bus,
            Err(_) => Outcome::Other,
        }
    }
    match op {
        Op::Configure => cls(sign.configure(), |_| Outcome::Ok),
        Op::ConfigureIfNeeded => cls(sign.configure_if_needed(), |_| Outcome::Ok),
        Op::SendPages(p) => {
            let style = |s| Outcome::OkStyle(s == PageFlipStyle::Automatic);
            match iter_kind(p) {
                0 => cls(sign.send_pages(p.iter()), style),
                1 => cls(sign.send_pages(p.iter().filter(|_| true)), style),
                2 => cls(sign.send_pages(p.iter().collect::<Vec<&Page<'static>>>()), style),
                3 => cls(sign.send_pages(p.iter().skip_while(|_| false)), style),
                8 => {
                    // an iterator that is not fused: after its first `None` it would yield pages again. The
                    // list ends at the first `None` (that is what a `for` loop sees); asking again is the bug.
                    #[derive(Clone)]
                    struct NotFused<'a> {
                        pages: &'a [Page<'a>],
                        pos: usize,
                    }
                    impl<'a> Iterator for NotFused<'a> {
                        type Item = &'a Page<'a>;
                        fn next(&mut self) -> Option<Self::Item> {
                            let k = self.pos;
                            self.pos += 1;
                            if k < self.pages.len() {
                                Some(&self.pages[k])
                            } else if k == self.pages.len() {
                                None
                            } else {
                                self.pages.first()
                            }
                        }
                    }
                    cls(sign.send_pages(NotFused { pages: &p[..], pos: 0 }), style)
                }
                6 => {
                    // groups of pages flattened: the iterator's size hint is (0, None) although it is finite
                    let groups: Vec<&[Page<'static>]> = if p.len() >= 2 { vec![&p[..1], &p[1..]] } else { vec![&p[..]] };
                    cls(sign.send_pages(groups.iter().flat_map(|g| g.iter())), style)
                }
                7 => {
                    // a title page followed by a filtered rest: the lower bound of the size hint is 1, not exact
                    match p.split_first() {
                        Some((first, rest)) => cls(sign.send_pages(std::iter::once(first).chain(rest.iter().filter(|_| true))), style),
                        None => cls(sign.send_pages(p.iter()), style),
                    }
                }
                5 => {
                    // zero-copy pages: every page borrows its bytes from ONE contiguous buffer, each
                    // starting exactly where the previous one ends (`Page::from_bytes(w, h, &buf[a..b])`)
                    let mut buf: Vec<u8> = Vec::new();
                    let mut spans = Vec::new();
                    for q in p.iter() {
                        spans.push((buf.len(), buf.len() + q.as_bytes().len(), q.width(), q.height()));
                        buf.extend_from_slice(q.as_bytes());
                    }
                    let views: Result<Vec<Page<'_>>, _> = spans.iter().map(|(a, b, w, h)| Page::from_bytes(*w, *h, &buf[*a..*b])).collect();
                    match views {
                        Ok(v) => cls(sign.send_pages(v.iter()), style),
                        Err(_) => cls(sign.send_pages(p.iter()), style),
                    }
                }
                4 => {
                    // a list of references in which equal pages are ONE object listed several times
                    // (`vec![&a, &b, &a]`): every listed item is to be sent, however the caller holds it
                    let refs: Vec<&Page<'static>> =
                        p.iter().map(|q| p.iter().find(|e| e.as_bytes() == q.as_bytes() && e.width() == q.width() && e.height() == q.height()).unwrap_or(q)).collect();
                    cls(sign.send_pages(refs), style)
                }
                _ => cls(sign.send_pages(p.iter().chain(std::iter::empty())), style),
            }
        }
        Op::Show => cls(sign.show_loaded_page(), |_| Outcome::Ok),
        Op::LoadNext => cls(sign.load_next_page(), |_| Outcome::Ok),
        Op::ShutDown => cls(sign.shut_down(), |_| Outcome::Ok),
    }
}
