//! C15: `Frame::read` consumes exactly one line; `Frame::write` delivers the whole frame —
//! under fragmentation, EINTR, short writes, EOF and a hard error at every I/O call index.

use flipdot_core::{Address, Frame, FrameError, MsgType};

use crate::core::{Cx, Scenario, Tier, Violation};
use crate::gens;
use crate::port::{Frag, SimStream};

pub struct C15Read;
pub struct C15Write;
pub struct C15Compositions;

pub fn gen_frame(cx: &Cx) -> Frame<'static> {
    let len = match cx.draw(8) {
        0 => 0,
        1 => 1,
        2 => 16,
        3 => *cx.pick(&[2usize, 3, 15, 17, 254, 255]),
        4 => cx.draw(256) as usize,
        _ => cx.draw(20) as usize,
    };
    let ty = if cx.chance(1, 2) { cx.draw(7) as u8 } else { cx.draw(256) as u8 };
    Frame::new(gens::address(cx), MsgType(ty), gens::data(gens::payload(cx, len)))
}

fn err_kind(e: &FrameError) -> &'static str {
    match e {
        FrameError::Io { .. } => "Io",
        FrameError::InvalidFrame { .. } => "InvalidFrame",
        FrameError::FrameDataMismatch { .. } => "FrameDataMismatch",
        FrameError::BadChecksum { .. } => "BadChecksum",
        FrameError::DataTooLong { .. } => "DataTooLong",
        _ => "other",
    }
}

fn same_result(a: &Result<Frame<'_>, FrameError>, b: &Result<Frame<'_>, FrameError>) -> bool {
    match (a, b) {
        (Ok(x), Ok(y)) => x == y,
        // "the result equals decoding that line": a decoding error carries what it refused (the
        // line, the lengths, the checksums), so it is compared as a value, not only by kind
        (Err(x), Err(y)) => err_kind(x) == err_kind(y) && (matches!(x, FrameError::Io { .. }) || format!("{x:?}") == format!("{y:?}")),
        _ => false,
    }
}

fn show_result(r: &Result<Frame<'_>, FrameError>) -> String {
    match r {
        Ok(f) => format!("Ok(addr={:#06x}, type={}, {} data bytes)", f.address().0, f.message_type().0, f.data().len()),
        Err(e @ FrameError::Io { .. }) => format!("Err({})", err_kind(e)),
        Err(e) => {
            let d = format!("{e:?}");
            format!("Err({})", if d.len() > 160 { format!("{}.. [{} chars]", &d[..160], d.len()) } else { d })
        }
    }
}

/// A stream: 1..5 lines followed by 0..8 arbitrary trailing bytes.
pub fn gen_stream(cx: &Cx) -> (Vec<u8>, Vec<&'static str>) {
    let mut out = Vec::new();
    let mut kinds = Vec::new();
    let nlines = 1 + cx.draw(5);
    for i in 0..nlines {
        match cx.draw(8) {
            0..=4 => {
                if cx.chance(1, 24) {
                    // a valid frame line with something in front of its colon that text tools put there
                    // (a UTF-8 byte-order mark, a prompt, an XON): not a valid line, whatever follows
                    cx.probe("frame_line_with_a_text_prefix");
                    out.extend_from_slice(*cx.pick(&[&b"\xEF\xBB\xBF"[..], b"\xFF\xFE", b"> ", b"\x11", b"\x1B[0m", b"::"]));
                    out.extend(gen_frame(cx).to_bytes_with_newline());
                    kinds.push("frame-with-text-prefix");
                } else {
                    out.extend(gen_frame(cx).to_bytes_with_newline());
                    kinds.push("frame");
                }
            }
            5 => {
                // damaged frame line
                let mut l = gen_frame(cx).to_bytes_with_newline();
                if cx.chance(1, 3) {
                    // a line that is shorter (or longer) than its own length field announces: the length
                    // digits are changed, or some characters in the middle went missing
                    cx.probe("line_length_disagrees_with_its_length_field");
                    if cx.chance(1, 2) || l.len() < 16 {
                        let declared = (l.len() as u64 - 13) / 2;
                        let other = (declared + 1 + cx.draw(60)) % 256;
                        let hex = format!("{:02X}", other).into_bytes();
                        l[1] = hex[0];
                        l[2] = hex[1];
                    } else {
                        let cut = 1 + cx.draw(((l.len() - 13) as u64).min(12)) as usize;
                        let at = 9 + cx.draw((l.len() - 13 - cut + 1) as u64) as usize;
                        l.drain(at..at + cut);
                    }
                    out.extend(l);
                    kinds.push("wrong-length");
                    continue;
                }
                let k = 1 + cx.draw(3);
                for _ in 0..k {
                    let body = l.len() - 2;
                    let p = cx.draw(body as u64) as usize;
                    let mut b = cx.draw(256) as u8;
                    if b == b'\n' {
                        b = b'x';
                    }
                    l[p] = b;
                }
                out.extend(l);
                kinds.push("damaged");
            }
            6 => {
                // garbage terminated by LF (possibly empty); now and then a very long burst of
                // noise, or a frame whose hex digits were turned into non-ASCII decimal digits
                let n = if cx.chance(1, 24) {
                    cx.probe("noise_line_longer_than_1k");
                    900 + cx.draw(8000) as usize
                } else {
                    cx.draw(12) as usize
                };
                if cx.chance(1, 16) {
                    cx.probe("line_of_non_ascii_digits");
                    let mut g: Vec<u8> = vec![b':'];
                    let digits = 10 + 2 * cx.draw(6) as usize;
                    for _ in 0..digits {
                        // U+0660..U+0669 ARABIC-INDIC DIGIT: 0xD9 0xA0..0xA9
                        g.extend_from_slice(&[0xD9, 0xA0 + cx.draw(10) as u8]);
                    }
                    g.extend_from_slice(b"\r\n");
                    out.extend(g);
                    kinds.push("non-ascii-digits");
                    continue;
                }
                if cx.chance(1, 6) {
                    // a line of plain text, as modems, boot loaders and terminal servers emit them
                    cx.probe("line_of_plain_text");
                    out.extend_from_slice(*cx.pick(&[&b"OK\r\n"[..], b"CONNECT\r\n", b"RING\r\n", b"NO CARRIER\r\n", b"ERROR\r\n", b"AT\r\n", b"+++\r\n", b"CONNECT 19200\r\n", b"login: \r\n", b":\r\n", b"#\r\n"]));
                    kinds.push("text-line");
                    continue;
                }
                let mut g = cx.bytes(n);
                for b in g.iter_mut() {
                    if *b == b'\n' {
                        *b = b'\r';
                    }
                }
                g.push(b'\n');
                out.extend(g);
                kinds.push("garbage");
            }
            _ => {
                // a valid frame terminated by a bare LF (not a valid line)
                // ... or by some other near-miss of CR LF (doubled CR, stray blank, NUL, leading blank)
                let mut l = gen_frame(cx).to_bytes();
                const ENDINGS: [&[u8]; 9] = [b"\n", b"\r\r\n", b"\r\r\r\n", b" \r\n", b"\r \n", b"\r\0\n", b"\t\r\n", b"\0\r\n", b"\r\n\r\n"];
                let e = cx.draw(ENDINGS.len() as u64) as usize;
                l.extend_from_slice(ENDINGS[e]);
                if cx.chance(1, 8) {
                    l.insert(0, *cx.pick(&[b' ', b'\r', b'\t', 0u8]));
                }
                out.extend(l);
                if e == 0 {
                    kinds.push("lf-only");
                } else {
                    cx.probe("frame_text_with_near_miss_line_ending");
                    kinds.push("near-miss-line-ending");
                }
            }
        }
        let _ = i;
    }
    match cx.draw(4) {
        0 => {}
        1 => {
            // last line without LF: the bare frame, or the frame with its CR but the LF cut off
            out.extend(gen_frame(cx).to_bytes());
            if cx.chance(1, 2) {
                out.push(b'\r');
                kinds.push("frame-with-cr-but-no-lf-at-eof");
                cx.probe("line_ending_in_cr_at_eof");
            } else {
                kinds.push("frame-without-lf-at-eof");
            }
            cx.probe("line_without_lf_at_eof");
        }
        _ => {
            let n = cx.draw(9) as usize;
            out.extend(cx.bytes(n));
            kinds.push("trailing-bytes");
        }
    }
    (out, kinds)
}

/// Reads frames until the stream is exhausted, checking consumption and results after every call.
/// Returns the number of I/O calls of the pass.
pub fn read_pass(cx: &Cx, s: &mut SimStream, stop_on_io_error: bool) -> Result<usize, Violation> {
    let data = s.data.clone();
    let mut prev = 0usize;
    let mut k = 0usize;
    loop {
        let want_end = match data[prev..].iter().position(|b| *b == b'\n') {
            Some(i) => prev + i + 1,
            None => data.len(),
        };
        let line = &data[prev..want_end];
        let eintr_before = s.cx.lock().faults.get("eintr").copied().unwrap_or(0);
        let got = Frame::read(s);
        let eintr_after = s.cx.lock().faults.get("eintr").copied().unwrap_or(0);
        if eintr_after > eintr_before && !line.is_empty() {
            cx.probe("eintr_mid_line");
        }
        cx.hash_event("frame_read", &(k, s.pos, got.is_ok()));
        if s.failed {
            // A hard I/O error was injected during this call.
            if !matches!(got, Err(FrameError::Io { .. })) {
                cx.fail("C15/io-error-not-surfaced", format!("read #{k}: the stream failed but Frame::read returned {}", show_result(&got)));
            } else if s.pos > want_end {
                cx.fail("C15/over-read", format!("read #{k} (failed): {} bytes handed out, the line ends at {}", s.pos, want_end));
            }
            return cx.verdict().map(|_| s.io_calls);
        }
        if s.pos != want_end {
            let class = if s.pos > want_end { "C15/over-read" } else { "C15/under-read" };
            cx.fail(
                class,
                format!("read #{k}: stream position {} after the call, the first line feed at or after {} ends the line at {} (stream of {} bytes)", s.pos, prev, want_end, data.len()),
            );
            return cx.verdict().map(|_| s.io_calls);
        }
        let want = Frame::from_bytes(line);
        if !same_result(&got, &want) {
            cx.fail(
                "C15/result-differs-from-decoding-the-line",
                format!("read #{k}: returned {}, decoding the line {:?} gives {}", show_result(&got), String::from_utf8_lossy(line), show_result(&want)),
            );
            return cx.verdict().map(|_| s.io_calls);
        }
        if matches!(got, Err(FrameError::Io { .. })) && stop_on_io_error {
            return Ok(s.io_calls);
        }
        k += 1;
        prev = want_end;
        if prev >= data.len() {
            // one more call at end of stream: nothing to consume
            if line.is_empty() {
                break;
            }
            if k > 64 {
                break;
            }
            continue;
        }
    }
    Ok(s.io_calls)
}

impl Scenario for C15Read {
    fn name(&self) -> &'static str {
        "c15-read"
    }
    fn property(&self) -> &'static str {
        "C15"
    }
    fn runs(&self, tier: Tier) -> u64 {
        match tier {
            Tier::Quick => 12_000,
            Tier::Thorough => 600_000,
        }
    }
    fn describe(&self) -> &'static str {
        "Frame::read over a simulated stream of 1-5 lines (valid frames, damaged frames, garbage, LF-only, missing LF at EOF) plus trailing bytes; tape-drawn fragmentation and EINTR; then a hard error injected at every I/O call index of the stream in turn"
    }
    fn run(&self, cx: &Cx) -> Result<(), Violation> {
        let (data, kinds) = gen_stream(cx);
        cx.event("stream", &(data.len(), &kinds));
        cx.note(|| format!("stream ({} bytes): {:?}", data.len(), String::from_utf8_lossy(&data)));
        cx.set_nontrivial();
        // pass 1: fragmentation + EINTR drawn from the tape
        let mut s = SimStream::new(cx, data.clone());
        s.eintr_den = *cx.pick(&[0u64, 8, 3, 32]);
        s.log_calls = true;
        // half of the streams scatter one read over several buffers when asked to (files, sockets,
        // slices do); the other half behave like a serial port (first buffer only)
        s.vectored = cx.chance(1, 2);
        let calls = read_pass(cx, &mut s, false)?;
        if s.max_offered > 1 {
            cx.probe("run_where_reader_asked_for_more_than_1_byte");
        }
        // pass 2: a hard error at every I/O call index (no EINTR so that indices are stable)
        let mut s0 = SimStream::new(cx, data.clone());
        s0.frag = Frag::Whole;
        let c0 = read_pass(cx, &mut s0, false)?;
        // every index for ordinary streams; for very long ones (noise bursts) about 48 placements
        // spread over the whole stream, with a drawn phase
        let step = if c0 > 1200 { c0 / 48 } else if c0 > 400 { 1 + cx.draw(7) as usize } else { 1 };
        let mut j = if step > 1 { cx.draw(step as u64) as usize } else { 0 };
        while j < c0 {
            let mut sj = SimStream::new(cx, data.clone());
            sj.frag = Frag::Whole;
            sj.fail_at = Some(j);
            read_pass(cx, &mut sj, true)?;
            if !sj.failed {
                cx.discard("fault-not-reached");
                return cx.verdict();
            }
            if j == 0 {
                cx.probe("error_at_first_call");
            }
            if j + 1 == c0 {
                cx.probe("error_at_last_call");
            }
            cx.probe("hard_error_placements");
            j += step;
        }
        // pass 3: exactly one interrupted read at every I/O call index
        let mut j = if step > 1 { cx.draw(step as u64) as usize } else { 0 };
        while j < c0 {
            let mut sj = SimStream::new(cx, data.clone());
            sj.frag = Frag::Whole;
            sj.eintr_at = Some(j);
            read_pass(cx, &mut sj, false)?;
            cx.probe("eintr_placements");
            j += step;
        }
        let _ = calls;
        cx.verdict()
    }
}

impl Scenario for C15Write {
    fn name(&self) -> &'static str {
        "c15-write"
    }
    fn property(&self) -> &'static str {
        "C15"
    }
    fn runs(&self, tier: Tier) -> u64 {
        match tier {
            Tier::Quick => 60_000,
            Tier::Thorough => 5_000_000,
        }
    }
    fn describe(&self) -> &'static str {
        "Frame::write into a simulated sink that accepts 1..=len bytes per call as drawn and reports EINTR; then a hard error and a zero-length write injected at every I/O call index in turn"
    }
    fn run(&self, cx: &Cx) -> Result<(), Violation> {
        let nframes = 1 + cx.draw(3);
        cx.set_nontrivial();
        for _ in 0..nframes {
            let f = gen_frame(cx);
            let want = f.to_bytes_with_newline();
            cx.event("frame", &(f.address().0, f.message_type().0, f.data().len()));
            let mut s = SimStream::new(cx, vec![]);
            s.short_writes = true;
            s.vectored = cx.chance(1, 2);
            s.eintr_den = *cx.pick(&[0u64, 8, 3]);
            s.log_calls = true;
            let r = f.write(&mut s);
            if r.is_err() {
                cx.fail("C15/write-failed-without-fault", format!("Frame::write returned {:?} although the sink only shortened and interrupted writes", r.err().map(|e| err_kind(&e))));
                return cx.verdict();
            }
            if s.sink != want {
                cx.fail(
                    "C15/sink-differs-from-encoding",
                    format!("sink holds {} bytes {:?}, the encoding with CRLF is {} bytes {:?}", s.sink.len(), String::from_utf8_lossy(&s.sink), want.len(), String::from_utf8_lossy(&want)),
                );
                return cx.verdict();
            }
            let calls = s.io_calls;
            // hard error / zero-length write at every call index of a pass with 7-byte writes
            for mode in 0..2 {
                let mut j = 0;
                loop {
                    let mut sj = SimStream::new(cx, vec![]);
                    sj.short_writes = false;
                    let mut lim = LimitedSink { inner: sj, max: 7 };
                    if mode == 0 {
                        lim.inner.fail_at = Some(j);
                    } else {
                        lim.inner.zero_at = Some(j);
                    }
                    let r = f.write(&mut lim);
                    let fired = lim.inner.failed || lim.inner.zeroed;
                    if !fired {
                        // the pass finished before call j: all indices covered
                        if r.is_err() || lim.inner.sink != want {
                            cx.fail("C15/sink-differs-from-encoding", "fault-free limited-sink pass did not deliver the encoding".to_string());
                        }
                        break;
                    }
                    cx.probe(if mode == 0 { "hard_error_placements" } else { "write_zero_placements" });
                    match r {
                        Err(FrameError::Io { .. }) => {}
                        other => {
                            cx.fail(
                                "C15/io-error-not-surfaced",
                                format!("the sink {} at call {j} but Frame::write returned {:?}", if mode == 0 { "failed" } else { "accepted 0 bytes" }, other.map_err(|e| err_kind(&e))),
                            );
                            return cx.verdict();
                        }
                    }
                    if !want.starts_with(&lim.inner.sink) {
                        cx.fail("C15/sink-not-a-prefix", format!("after a failure at call {j} the sink holds {:?}", String::from_utf8_lossy(&lim.inner.sink)));
                        return cx.verdict();
                    }
                    j += 1;
                    if j > 200 {
                        break;
                    }
                }
            }
            // one interrupted call / one single-byte write at every call index: must still deliver everything
            for mode in 0..2 {
                let mut j = 0;
                loop {
                    let mut sj = SimStream::new(cx, vec![]);
                    if mode == 0 {
                        sj.eintr_at = Some(j);
                    } else {
                        sj.one_byte_at = Some(j);
                    }
                    let mut lim = LimitedSink { inner: sj, max: 7 };
                    let r = f.write(&mut lim);
                    if !lim.inner.placed_fired {
                        break;
                    }
                    cx.probe(if mode == 0 { "eintr_placements" } else { "one_byte_write_placements" });
                    if r.is_err() || lim.inner.sink != want {
                        cx.fail(
                            "C15/sink-differs-from-encoding",
                            format!(
                                "{} at call {j}: Frame::write returned {:?} and the sink holds {:?}, wanted {:?}",
                                if mode == 0 { "one interrupted write" } else { "one single-byte write" },
                                r.map_err(|e| err_kind(&e)),
                                String::from_utf8_lossy(&lim.inner.sink),
                                String::from_utf8_lossy(&want)
                            ),
                        );
                        return cx.verdict();
                    }
                    j += 1;
                    if j > 200 {
                        break;
                    }
                }
            }
            let _ = calls;
        }
        cx.verdict()
    }
}

/// Sink wrapper accepting at most `max` bytes per call (deterministic short writes).
struct LimitedSink {
    inner: SimStream,
    max: usize,
}

impl std::io::Write for LimitedSink {
    fn write(&mut self, buf: &[u8]) -> std::io::Result<usize> {
        let n = buf.len().min(self.max);
        self.inner.write(&buf[..n])
    }
    fn write_vectored(&mut self, bufs: &[std::io::IoSlice<'_>]) -> std::io::Result<usize> {
        // a natively gathering sink with a per-call byte budget
        let all: Vec<u8> = bufs.iter().flat_map(|b| b.iter().copied()).collect();
        let n = all.len().min(self.max);
        self.inner.write(&all[..n])
    }
    fn flush(&mut self) -> std::io::Result<()> {
        Ok(())
    }
}

impl Scenario for C15Compositions {
    fn name(&self) -> &'static str {
        "c15-compositions"
    }
    fn property(&self) -> &'static str {
        "C15"
    }
    fn runs(&self, tier: Tier) -> u64 {
        match tier {
            Tier::Quick => 48,
            Tier::Thorough => 4_000,
        }
    }
    fn describe(&self) -> &'static str {
        "a stream of at most 16 bytes (one shortest frame + 0-3 trailing bytes, or two garbage lines): EVERY composition of the stream into read-fragment sizes is enumerated"
    }
    fn run(&self, cx: &Cx) -> Result<(), Violation> {
        let mut data = if cx.chance(3, 4) {
            Frame::new(Address(cx.draw(0x1_0000) as u16), MsgType(cx.draw(256) as u8), gens::data(vec![])).to_bytes_with_newline()
        } else {
            let mut g = cx.bytes(5);
            g.push(b'\n');
            g.extend(cx.bytes(4));
            g.push(b'\n');
            g
        };
        let extra = cx.draw(4) as usize;
        data.extend(cx.bytes(extra));
        let n = data.len();
        cx.event("stream", &data);
        cx.note(|| format!("stream ({n} bytes): {:?}", String::from_utf8_lossy(&data)));
        cx.set_nontrivial();
        // compositions of n <-> subsets of the n-1 cut positions
        let total: u64 = 1 << (n - 1);
        for mask in 0..total {
            let mut sizes = Vec::new();
            let mut cur = 1usize;
            for i in 0..n - 1 {
                if mask & (1 << i) != 0 {
                    sizes.push(cur);
                    cur = 1;
                } else {
                    cur += 1;
                }
            }
            sizes.push(cur);
            let mut s = SimStream::new(cx, data.clone());
            s.frag = Frag::Fixed(sizes);
            read_pass(cx, &mut s, false)?;
        }
        cx.probe_n("compositions_enumerated", total);
        cx.verdict()
    }
}
