//! C12 / C13: a bus of virtual signs under hostile traffic.
//!
//! Traffic sources, mixed per run: (1) real `Sign` controllers talking through the fault-injecting
//! bus, (2) a state-aware raw generator over the whole message alphabet, (3) (C12 only, own
//! scenario) a flood of data chunks taking the chunk counter through its 16-bit limit.
//! C12 judges only "no unwind"; C13 compares the real signs with the reference state machine
//! after every delivered message.

use std::cell::RefCell;
use std::rc::Rc;

use flipdot::Sign;
use flipdot_core::{ChunkCount, Message, Offset, Operation, State};

use crate::bus::{FaultCfg, FaultyBus, OnPanic, SharedWorld, World, MSG_FAULTS};
use crate::core::{Cx, Scenario, Tier, Violation};
use crate::gens;
use crate::models::sign::SignModel;
use crate::ops;

#[derive(Clone, Copy, Debug, PartialEq, Eq)]
pub enum Mode {
    NoPanic,
    Refinement,
}

pub struct SignNode {
    pub mode: Mode,
}

/// A message that is meaningful in the sign's current state (drives the sign deep).
pub fn aware_message(cx: &Cx, md: &SignModel) -> Message<'static> {
    let a = md.address;
    let page_len = if md.w > 0 && md.h > 0 { gens::padded_page_len(md.w, md.h) } else { 48 };
    match md.state {
        State::Unconfigured | State::ConfigFailed => Message::RequestOperation(a, Operation::ReceiveConfig),
        State::ConfigInProgress => {
            if md.chunks == 0 || cx.chance(1, 8) {
                let mut block = gens::config_block(cx);
                if cx.chance(1, 10) {
                    // a record that starts like a configuration block but is longer than one (padded
                    // by its sender, or really the first record of somebody else's page)
                    cx.probe("config_block_with_trailing_bytes");
                    let extra = if cx.chance(1, 2) { 16 * (1 + cx.draw(4) as usize) } else { 1 + cx.draw(60) as usize };
                    block.extend(gens::payload(cx, extra));
                }
                Message::SendData(Offset(0), gens::data(block))
            } else {
                count_message(cx, md.chunks)
            }
        }
        State::ConfigReceived | State::PixelsFailed => Message::RequestOperation(a, Operation::ReceivePixels),
        State::PixelsInProgress => {
            let have = md.pending.len();
            let at_boundary = have == 0 || have >= page_len;
            if at_boundary && md.chunks > 0 && cx.chance(1, 2) {
                count_message(cx, md.chunks)
            } else if !at_boundary && cx.chance(1, 12) {
                // abandon the page half-way: count or restart
                if cx.chance(1, 2) { count_message(cx, md.chunks) } else { Message::SendData(Offset(0), gens::data(cx.bytes(16))) }
            } else {
                let off = if at_boundary { 0 } else { have as u16 };
                // a sender that leaves off the filler after the last column aims at the unpadded length
                let unpadded = if md.w > 0 && md.h > 0 { 4 + md.w as usize * ((md.h as usize + 7) / 8) } else { page_len };
                let goal = if !at_boundary && have < unpadded && cx.chance(1, 10) { unpadded } else { page_len };
                let n = if cx.chance(1, 10) { gens::chunk_len(cx) } else { 16usize.min(goal.saturating_sub(if at_boundary { 0 } else { have })).max(1) };
                Message::SendData(Offset(off), gens::data(gens::payload(cx, n)))
            }
        }
        State::PixelsReceived => Message::PixelsComplete(a),
        State::PageLoaded => match cx.draw(3) {
            0 => Message::RequestOperation(a, Operation::ShowLoadedPage),
            1 => Message::RequestOperation(a, Operation::ReceivePixels),
            _ => Message::QueryState(a),
        },
        State::PageShown => match cx.draw(3) {
            0 => Message::RequestOperation(a, Operation::LoadNextPage),
            1 => Message::RequestOperation(a, Operation::ReceivePixels),
            _ => Message::QueryState(a),
        },
        State::PageLoadInProgress | State::PageShowInProgress => {
            if cx.chance(1, 4) { Message::RequestOperation(a, Operation::ReceivePixels) } else { Message::QueryState(a) }
        }
        State::ShowingPages => {
            if cx.chance(1, 2) { Message::RequestOperation(a, Operation::ReceivePixels) } else { Message::RequestOperation(a, Operation::StartReset) }
        }
        State::ReadyToReset => Message::RequestOperation(a, Operation::FinishReset),
        _ => Message::QueryState(a),
    }
}

fn count_message(cx: &Cx, true_count: u32) -> Message<'static> {
    let t = true_count.min(0xFFFF) as u16;
    let n = match cx.draw(8) {
        0..=4 => t,
        5 => t.wrapping_sub(1),
        6 => t.wrapping_add(1),
        _ => cx.draw(0x1_0000) as u16,
    };
    if n < t {
        cx.probe("count_below");
    } else if n > t {
        cx.probe("count_above");
    }
    Message::DataChunksSent(ChunkCount(n))
}

fn probe_before(cx: &Cx, world: &World, m: &Message<'_>) {
    for md in &world.models {
        match m {
            Message::DataChunksSent(n) if md.state == State::PixelsInProgress => {
                let page_len = gens::padded_page_len(md.w, md.h);
                if !md.pending.is_empty() && md.pending.len() < page_len {
                    cx.probe("count_with_short_page_buffered");
                } else if md.pending.len() > page_len {
                    cx.probe("count_with_long_page_buffered");
                }
                if u32::from(n.0) == md.chunks && !md.pending.is_empty() && md.pending.len() != page_len {
                    cx.probe("count_match_with_wrong_size_page");
                }
            }
            Message::DataChunksSent(_) if !md.pending.is_empty() && md.state != State::PixelsInProgress => cx.probe("flush_in_non_receiving_state"),
            Message::SendData(o, d) if md.state == State::PixelsInProgress => {
                if o.0 == 0 && !md.pending.is_empty() && md.pending.len() != gens::padded_page_len(md.w, md.h) {
                    cx.probe("offset0_with_partial_pending");
                }
                if o.0 == 0 && md.pending.len() == gens::padded_page_len(md.w, md.h) && !md.pages.is_empty() {
                    cx.probe("multi_page_reassembly");
                }
                if d.get().len() < 16 {
                    cx.probe("short_chunk_in_transfer");
                } else if d.get().len() > 16 {
                    cx.probe("extra_long_chunk_in_transfer");
                }
            }
            Message::SendData(o, d) if md.state == State::ConfigInProgress && o.0 == 0 && d.get().len() == 16 => {
                let b = d.get();
                match b[0] {
                    4 => {
                        let sum: u32 = b[5..9].iter().map(|x| u32::from(*x)).sum();
                        if sum > 255 {
                            cx.probe("config_width_sum_gt_255");
                        }
                        if b[4] == 0 {
                            cx.probe("config_height_0");
                        }
                    }
                    8 => {
                        if b[5] == 0 || b[7] == 0 {
                            cx.probe("config_zero_dimension");
                        }
                    }
                    _ => cx.probe("config_family_other"),
                }
            }
            Message::RequestOperation(a, Operation::ReceivePixels) if *a == md.address && md.op_legal(Operation::ReceivePixels) && !md.pages.is_empty() => {
                cx.probe("new_transfer_replaces_pages");
            }
            Message::RequestOperation(a, Operation::StartReset) if *a == md.address && matches!(md.state, State::PixelsInProgress | State::ConfigInProgress) => {
                cx.probe("abandoned_transfer_then_reset");
            }
            _ => {}
        }
    }
}

pub fn deliver_probed(cx: &Cx, world: &SharedWorld, m: &Message<'_>) {
    let mut w = world.lock();
    probe_before(cx, &w, m);
    let _ = w.deliver(m);
}

/// Creates the signs of a run: 1 sign mostly, sometimes 2 or 3.
pub fn make_signs(cx: &Cx) -> Vec<(flipdot_core::Address, flipdot_core::PageFlipStyle)> {
    let n = match cx.draw(6) {
        0..=3 => 1,
        4 => 2,
        _ => {
            if cx.chance(1, 8) {
                // a crowded bus
                cx.probe("bus_with_8_or_more_signs");
                if cx.chance(1, 4) {
                    cx.probe("bus_with_more_than_32_signs");
                    if cx.chance(1, 3) { 65 + cx.draw(8) as usize } else { 33 + cx.draw(8) as usize }
                } else {
                    8 + cx.draw(5) as usize
                }
            } else {
                3
            }
        }
    };
    let addrs = gens::distinct_addresses(cx, n);
    addrs.into_iter().map(|a| (a, gens::flip_style(cx))).collect()
}

/// One controller operation through a fault-injecting bus (the controller may crash mid-call).
pub fn controller_segment(cx: &Cx, world: &SharedWorld, allowed_faults: &[&str]) {
    let cfg = FaultCfg::swarm(cx, allowed_faults);
    let addrs = world.lock().addrs.clone();
    let addr = if cx.chance(1, 10) { gens::other_address(cx, &addrs) } else { *cx.pick(&addrs) };
    let t = gens::sign_type(cx);
    let fb = Rc::new(RefCell::new(FaultyBus::new(world.clone(), cx, cfg)));
    let sign = Sign::new(fb.clone(), addr, t);
    let nops = 1 + cx.draw(4);
    for _ in 0..nops {
        if cx.failed() || world.lock().dead {
            break;
        }
        let op = ops::gen_op(cx, t, 3);
        let crash = if cx.chance(1, 6) { Some(cx.draw(40)) } else { None };
        fb.borrow_mut().begin_call(crash);
        cx.note(|| format!("controller({:#06x}, {:?}).{}", addr.0, t, op.name()));
        let out = ops::apply(&sign, &op);
        cx.event("op", &(op.code(), &out));
        cx.note(|| format!("  -> {out:?}"));
    }
    fb.borrow_mut().flush_held();
}

impl Scenario for SignNode {
    fn name(&self) -> &'static str {
        match self.mode {
            Mode::NoPanic => "c12-signnode",
            Mode::Refinement => "c13-signnode",
        }
    }
    fn property(&self) -> &'static str {
        match self.mode {
            Mode::NoPanic => "C12",
            Mode::Refinement => "C13",
        }
    }
    fn runs(&self, tier: Tier) -> u64 {
        match (self.mode, tier) {
            (Mode::NoPanic, Tier::Quick) => 400_000,
            (Mode::NoPanic, Tier::Thorough) => 40_000_000,
            (Mode::Refinement, Tier::Quick) => 400_000,
            (Mode::Refinement, Tier::Thorough) => 40_000_000,
        }
    }
    fn describe(&self) -> &'static str {
        "1-3 (one run in 24: 8-12) real VirtualSigns on a real VirtualSignBus; on a crowded bus half of the runs start with every sign put into a receiving state at once; traffic = real Sign controllers through the fault-injecting bus (loss, duplication, reordering, damaged chunks/counts/config, foreign master, crash) mixed with a state-aware raw generator over the full message alphabet"
    }

    fn run(&self, cx: &Cx) -> Result<(), Violation> {
        let signs = make_signs(cx);
        let prop = self.property();
        let world = World::new(cx, prop, OnPanic::Fail, &signs, self.mode == Mode::Refinement);
        if signs.len() >= 8 && cx.chance(1, 2) {
            // a controller that sets a crowded bus up in one go: every sign is asked to receive, then the
            // unaddressed data goes out once for all of them (data frames carry no address, so this works)
            cx.probe("all_signs_receiving_at_once");
            let addrs = world.lock().addrs.clone();
            let block = gens::sign_type(cx).to_bytes().to_vec();
            for a in &addrs {
                deliver_probed(cx, &world, &Message::RequestOperation(*a, Operation::ReceiveConfig));
            }
            deliver_probed(cx, &world, &Message::SendData(Offset(0), gens::data(block)));
            deliver_probed(cx, &world, &Message::DataChunksSent(flipdot_core::ChunkCount(1)));
            for a in &addrs {
                deliver_probed(cx, &world, &Message::RequestOperation(*a, Operation::ReceivePixels));
            }
            for k in 0..cx.draw(8) {
                deliver_probed(cx, &world, &Message::SendData(Offset(16 * k as u16), gens::data(gens::payload(cx, 16))));
            }
        }
        let segments = 1 + cx.draw(6);
        for _ in 0..segments {
            if cx.failed() || world.lock().dead {
                break;
            }
            match cx.draw(3) {
                0 | 1 => {
                    // raw burst
                    let n = 1 + cx.draw(40);
                    let aware_num = *cx.pick(&[3u64, 4, 2, 0]);
                    let mut prev: Option<Message<'static>> = None;
                    for _ in 0..n {
                        if cx.failed() || world.lock().dead {
                            break;
                        }
                        let m = if prev.is_some() && cx.chance(1, 12) {
                            // the same message twice in a row
                            cx.probe("message_repeated_back_to_back");
                            prev.clone().unwrap()
                        } else if cx.chance(aware_num, 4) {
                            let w = world.lock();
                            let i = cx.draw(w.models.len() as u64) as usize;
                            aware_message(cx, &w.models[i])
                        } else {
                            let addrs = world.lock().addrs.clone();
                            gens::raw_message(cx, &addrs)
                        };
                        deliver_probed(cx, &world, &m);
                        prev = Some(m);
                    }
                }
                _ => controller_segment(cx, &world, &MSG_FAULTS),
            }
        }
        {
            let w = world.lock();
            if w.delivered >= 5 {
                cx.set_nontrivial();
            }
            for md in &w.models {
                cx.probe(&format!("final_state:{:?}", md.state));
                if md.pages.len() >= 2 {
                    cx.probe("two_or_more_pages_stored");
                }
            }
        }
        cx.verdict()
    }
}

/// C12 flood: more than 65 535 data chunks inside one transfer.
pub struct Flood;

impl Scenario for Flood {
    fn name(&self) -> &'static str {
        "c12-flood"
    }
    fn property(&self) -> &'static str {
        "C12"
    }
    fn runs(&self, tier: Tier) -> u64 {
        match tier {
            Tier::Quick => 16,
            Tier::Thorough => 256,
        }
    }
    fn describe(&self) -> &'static str {
        "one transfer (configuration or pixels) with 65 536..70 000 data chunks (16-byte, empty, or 255-byte records that never restart the page), taking the sign's 16-bit chunk counter and its pending buffer through their limits"
    }
    fn run(&self, cx: &Cx) -> Result<(), Violation> {
        let a = gens::address(cx);
        let world = World::new(cx, "C12", OnPanic::Fail, &[(a, gens::flip_style(cx))], false);
        {
            let mut w = world.lock();
            w.track_states = false;
            w.log_messages = false;
            w.delivery_cap = 200_000;
        }
        // the six combinations of (configuration | pixels) x (chunk shape) are taken in turn by run index
        // (the logging batch has only four runs: it takes the second half of the combinations)
        let combo = ((cx.index() & !crate::core::LOG_BIT) + if cx.index() & crate::core::LOG_BIT != 0 { 4 } else { 0 }) % 8;
        let in_pixels = combo % 2 == 1;
        let total = 65_536 + cx.draw(4_465);
        let deliver = |m: Message<'static>| {
            let _ = world.lock().deliver(&m);
        };
        deliver(Message::RequestOperation(a, Operation::ReceiveConfig));
        // fourth shape: a tiny custom sign (8x8: one chunk per page), every chunk a complete page, so
        // that the page LIST grows past 65 536 entries
        let tiny = combo / 2 == 3;
        let block = if tiny {
            cx.probe("more_than_65536_pages_in_one_transfer");
            let mut b = vec![0u8; 16];
            b[0] = 0x08;
            b[5] = 8;
            b[7] = 8;
            b
        } else {
            gens::sign_type(cx).to_bytes().to_vec()
        };
        if in_pixels {
            deliver(Message::SendData(Offset(0), gens::data(block.clone())));
            deliver(Message::DataChunksSent(ChunkCount(1)));
            deliver(Message::RequestOperation(a, Operation::ReceivePixels));
        }
        let shape = combo / 2;
        let small = shape == 1;
        // third shape: maximal 255-byte records that never restart the page, so that the sign's pending
        // buffer itself grows past 64 KiB (and past 16 MiB) at an odd boundary
        let big = shape == 2;
        if big {
            cx.probe("pending_buffer_grown_past_64k");
        }
        for i in 0..total {
            if cx.failed() {
                break;
            }
            if in_pixels && big {
                deliver(Message::SendData(Offset(16), gens::data(vec![0x5A; 255])));
            } else if in_pixels && tiny {
                let mut page = vec![0xFFu8; 16];
                page[0] = i as u8;
                page[1] = 0x10;
                page[2] = 0;
                page[3] = 0;
                deliver(Message::SendData(Offset(0), gens::data(page)));
            } else if in_pixels {
                let n = if small { 0 } else { 16 };
                let off = if i % 3 == 0 { 0 } else { 16 };
                deliver(Message::SendData(Offset(off), gens::data(vec![0xA5; n])));
            } else {
                deliver(Message::SendData(Offset(0), gens::data(block.clone())));
            }
        }
        cx.event("flooded", &(in_pixels, total));
        cx.probe("counter_taken_past_65535");
        deliver(Message::DataChunksSent(ChunkCount((total % 65_536) as u16)));
        deliver(Message::QueryState(a));
        deliver(Message::DataChunksSent(ChunkCount(0)));
        cx.set_nontrivial();
        cx.verdict()
    }
}

/// More than 256 complete pages inside one pixel transfer (tiny custom size: one chunk per
/// page), then the count, PixelsComplete and flips: long runs that random bursts never reach.
pub struct ManyPages {
    pub mode: Mode,
}

impl Scenario for ManyPages {
    fn name(&self) -> &'static str {
        match self.mode {
            Mode::NoPanic => "c12-many-pages",
            Mode::Refinement => "c13-many-pages",
        }
    }
    fn property(&self) -> &'static str {
        match self.mode {
            Mode::NoPanic => "C12",
            Mode::Refinement => "C13",
        }
    }
    fn runs(&self, tier: Tier) -> u64 {
        match tier {
            Tier::Quick => 64,
            Tier::Thorough => 4_000,
        }
    }
    fn describe(&self) -> &'static str {
        "one sign configured with a tiny custom size (one 16-byte chunk per page), one pixel transfer of 200-700 complete pages (a few damaged ones mixed in), count, PixelsComplete, queries and flips"
    }
    fn run(&self, cx: &Cx) -> Result<(), Violation> {
        let a = gens::address(cx);
        let world = World::new(cx, self.property(), OnPanic::Fail, &[(a, gens::flip_style(cx))], self.mode == Mode::Refinement);
        world.lock().track_states = false;
        let deliver = |m: Message<'static>| {
            let _ = world.lock().deliver(&m);
        };
        // 12x8 Horizon or 12x8 Max3000 with an unknown id: 4 + 12 = 16 bytes per page
        let mut block = vec![0u8; 16];
        if cx.chance(1, 2) {
            block[0] = 0x08;
            block[1] = 0x99;
            block[5] = 8;
            block[7] = 12;
        } else {
            block[0] = 0x04;
            block[1] = 0x99;
            block[4] = 8;
            block[5] = 12;
        }
        deliver(Message::RequestOperation(a, Operation::ReceiveConfig));
        deliver(Message::SendData(Offset(0), gens::data(block)));
        deliver(Message::DataChunksSent(ChunkCount(1)));
        deliver(Message::RequestOperation(a, Operation::ReceivePixels));
        let n = 200 + cx.draw(500);
        let mut sent = 0u32;
        for i in 0..n {
            if cx.failed() {
                break;
            }
            let len = if cx.chance(1, 50) { gens::chunk_len(cx) } else { 16 };
            let mut bytes = cx.bytes(len);
            if !bytes.is_empty() {
                bytes[0] = i as u8;
            }
            deliver(Message::SendData(Offset(0), gens::data(bytes)));
            sent += 1;
        }
        cx.event("pages", &n);
        if n > 256 {
            cx.probe("more_than_256_pages_in_one_transfer");
        }
        deliver(Message::DataChunksSent(ChunkCount(sent as u16)));
        deliver(Message::QueryState(a));
        deliver(Message::PixelsComplete(a));
        deliver(Message::QueryState(a));
        deliver(Message::RequestOperation(a, Operation::ShowLoadedPage));
        deliver(Message::QueryState(a));
        deliver(Message::QueryState(a));
        cx.set_nontrivial();
        cx.verdict()
    }
}

/// A bus of zero signs is a legal bus: every message must simply go unanswered.
pub struct EmptyBus;

impl Scenario for EmptyBus {
    fn name(&self) -> &'static str {
        "c12-empty-bus"
    }
    fn property(&self) -> &'static str {
        "C12"
    }
    fn runs(&self, tier: Tier) -> u64 {
        match tier {
            Tier::Quick => 2_000,
            Tier::Thorough => 200_000,
        }
    }
    fn describe(&self) -> &'static str {
        "a VirtualSignBus holding no sign at all receives raw messages of every kind and a real Sign controller's operations"
    }
    fn run(&self, cx: &Cx) -> Result<(), Violation> {
        let world = World::new(cx, "C12", OnPanic::Fail, &[], false);
        let n = 1 + cx.draw(12);
        for _ in 0..n {
            if cx.failed() {
                break;
            }
            if cx.chance(1, 4) {
                let fb = Rc::new(RefCell::new(FaultyBus::new(world.clone(), cx, FaultCfg::none())));
                let t = gens::sign_type(cx);
                let sign = Sign::new(fb, gens::address(cx), t);
                let op = ops::gen_op(cx, t, 2);
                let out = ops::apply(&sign, &op);
                cx.event("op", &(op.code(), &out));
            } else {
                let m = gens::raw_message(cx, &[]);
                let r = world.lock().deliver(&m);
                if r.is_some() {
                    cx.fail("C12/reply-from-empty-bus", format!("a bus without signs answered {}", gens::show_opt(&r)));
                }
            }
        }
        cx.set_nontrivial();
        cx.verdict()
    }
}
