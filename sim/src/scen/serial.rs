//! C16 (one frame out, one frame in exactly when due), C18 (pacing on the simulated clock),
//! C20 (port setup) — the real `SerialSignBus` / `Odk` / `configure_port` over a simulated port.

use std::time::{Duration, Instant};

use flipdot_core::{ChunkCount, Frame, Message, Offset, SignBus, State};
use flipdot_serial::verif_hooks::{set_sleep, SleepFn};
use flipdot_serial::SerialSignBus;
use flipdot_testing::{Odk, VirtualSignBus};

use crate::core::{stable_hash, Cx, Scenario, Tier, Violation};
use crate::gens::{self, show, show_opt, to_static};
use crate::port::{BaudRate2, CfgCall, CfgFail, Device, PortOp, ScriptWire, SharedWire, SimClock, SimPort, SimSettings};

type Port = SimPort<ScriptWire>;

/// Installs a sleep function that advances the simulated clock; returns a guard that removes it.
pub struct SleepGuard;

impl Drop for SleepGuard {
    fn drop(&mut self) {
        let _ = set_sleep(None);
    }
}

thread_local! {
    /// Total simulated nanoseconds slept through the seam on this thread.
    pub static SLEPT_NS: std::cell::Cell<u64> = const { std::cell::Cell::new(0) };
}

pub fn install_sleep(clock: &SimClock, cx: &Cx) -> SleepGuard {
    let c = clock.clone();
    let cx = cx.clone();
    let _ = set_sleep(Some(SleepFn(Box::new(move |d: Duration| {
        c.advance(d.as_nanos() as u64);
        SLEPT_NS.with(|s| s.set(s.get() + d.as_nanos() as u64));
        cx.add_sim_ns(d.as_nanos() as u64);
        cx.hash_event("sleep", &(d.as_nanos() as u64));
    }))));
    SleepGuard
}

/// Any message of the protocol, parameters across their ranges.
pub fn any_message(cx: &Cx) -> Message<'static> {
    let a = gens::address(cx);
    match cx.draw(10) {
        0 => Message::Hello(a),
        1 => Message::QueryState(a),
        2 => Message::RequestOperation(a, gens::ALL_OPS[cx.draw(6) as usize]),
        3 => {
            let n = gens::chunk_len(cx);
            let off = *cx.pick(&[0u16, 16, 32, 0xFFF0, 0xFFFF, 1]);
            Message::SendData(Offset(off), gens::data(gens::payload(cx, n)))
        }
        4 => Message::DataChunksSent(ChunkCount(*cx.pick(&[0u16, 1, 6, 255, 256, 0xFFFF]))),
        5 => Message::PixelsComplete(a),
        6 => Message::Goodbye(a),
        7 => Message::ReportState(a, gens::ALL_STATES[cx.draw(13) as usize]),
        8 => Message::AckOperation(a, gens::ALL_OPS[cx.draw(6) as usize]),
        _ => Message::Unknown(gens::unknown_frame(cx)),
    }
}

pub fn reply_due(m: &Message<'_>) -> bool {
    matches!(m, Message::Hello(_) | Message::QueryState(_) | Message::RequestOperation(..))
}

fn msg_kind(m: &Message<'_>) -> &'static str {
    match m {
        Message::SendData(..) => "SendData",
        Message::DataChunksSent(..) => "DataChunksSent",
        Message::Hello(..) => "Hello",
        Message::QueryState(..) => "QueryState",
        Message::ReportState(..) => "ReportState",
        Message::RequestOperation(..) => "RequestOperation",
        Message::AckOperation(..) => "AckOperation",
        Message::PixelsComplete(..) => "PixelsComplete",
        Message::Goodbye(..) => "Goodbye",
        Message::Unknown(..) => "Unknown",
        _ => "other",
    }
}

/// A reply line as the far end would put it on the wire. Returns (bytes, kind).
/// What the simulator knows about a line independently of the decoder under test:
/// `Some(Some(m))` = it is the encoding of `m` (possibly in lower / mixed case, which the wire
/// format allows), `Some(None)` = it is certainly not a frame, `None` = no independent knowledge.
type Known = Option<Option<Message<'static>>>;

/// Lower-cases (or randomly mixes the case of) the hex digits of a line.
pub fn recase(cx: &Cx, line: &mut [u8]) {
    match cx.draw(4) {
        0 | 1 => {}
        2 => {
            cx.probe("lower_case_hex_line");
            line.make_ascii_lowercase();
        }
        _ => {
            cx.probe("mixed_case_hex_line");
            for b in line.iter_mut() {
                if cx.chance(1, 2) {
                    b.make_ascii_lowercase();
                }
            }
        }
    }
}

fn reply_line(cx: &Cx) -> (Vec<u8>, &'static str, Known) {
    if cx.chance(1, 16) {
        // a blank line in front of whatever follows: a line of its own, and not a frame
        cx.probe("blank_reply_line");
        let l: &[u8] = *cx.pick(&[&b"\r\n"[..], &b"\n"[..], &b" \r\n"[..], &b"\t\r\n"[..], &b"\r\r\n"[..]]);
        return (l.to_vec(), "blank", Some(None));
    }
    if cx.chance(1, 24) {
        // a frame terminated by a bare LF: a line of its own, and not a frame
        cx.probe("bare_lf_reply_line");
        let mut l = Frame::from(Message::ReportState(gens::address(cx), gens::ALL_STATES[cx.draw(13) as usize])).to_bytes();
        l.push(b'\n');
        return (l, "bare-lf", Some(None));
    }
    if cx.chance(1, 32) {
        // a long burst of line noise before the LF
        cx.probe("noise_reply_longer_than_1k");
        let n = 900 + cx.draw(8000) as usize;
        let mut g = cx.bytes(n);
        for b in g.iter_mut() {
            if *b == b'\n' {
                *b = b'~';
            }
        }
        g.extend_from_slice(b"\r\n");
        return (g, "long-noise", Some(None));
    }
    if cx.chance(1, 32) {
        // frame-shaped, but the "digits" are non-ASCII decimal digits (U+0660..)
        cx.probe("reply_of_non_ascii_digits");
        let mut g: Vec<u8> = vec![b':'];
        for _ in 0..(10 + 2 * cx.draw(4) as usize) {
            g.extend_from_slice(&[0xD9, 0xA0 + cx.draw(10) as u8]);
        }
        g.extend_from_slice(b"\r\n");
        return (g, "non-ascii-digits", Some(None));
    }
    if cx.chance(1, 16) {
        // the far end stops in the middle of its line (no LF ever arrives)
        let mut l = Frame::from(Message::ReportState(gens::address(cx), gens::ALL_STATES[cx.draw(13) as usize])).to_bytes_with_newline();
        let keep = 1 + cx.draw(l.len() as u64 - 1) as usize;
        l.truncate(keep);
        if l.ends_with(b"\n") {
            l.pop();
        }
        return (l, "partial-line", None);
    }
    match cx.draw(11) {
        0..=3 => {
            let m = match cx.draw(3) {
                0 => Message::ReportState(gens::address(cx), gens::ALL_STATES[cx.draw(13) as usize]),
                1 => Message::AckOperation(gens::address(cx), gens::ALL_OPS[cx.draw(6) as usize]),
                _ => any_message(cx),
            };
            let mut l = Frame::from(m.clone()).to_bytes_with_newline();
            recase(cx, &mut l);
            // what the bus must hand back is the decoding of the frame, i.e. the message as it
            // survives the frame (a 0/1-byte SendData comes back as Unknown: C05's business)
            let back = to_static(&Message::from(Frame::from(m)));
            (l, "known", Some(Some(back)))
        }
        4 => {
            let f = gens::unknown_frame(cx);
            let mut l = f.to_bytes_with_newline();
            recase(cx, &mut l);
            (l, "unknown", Some(Some(Message::Unknown(f))))
        }
        5 => {
            let n = cx.draw(20) as usize;
            let mut g = cx.bytes(n);
            for b in g.iter_mut() {
                if *b == b'\n' {
                    *b = b'?';
                }
            }
            g.extend_from_slice(b"\r\n");
            (g, "malformed", None)
        }
        6 => {
            let mut l = Frame::from(Message::ReportState(gens::address(cx), State::Unconfigured)).to_bytes_with_newline();
            let p = l.len() - 3;
            l[p] = if l[p] == b'0' { b'1' } else { b'0' };
            (l, "bad-checksum", Some(None))
        }
        7 => {
            let mut l = Frame::from(Message::ReportState(gens::address(cx), State::Unconfigured)).to_bytes_with_newline();
            l[2] = b'3';
            (l, "wrong-length", Some(None))
        }
        8 => (vec![], "empty-timeout", None),
        9 => {
            // a reply in which one hex digit was hit into a character that is no hex digit at all
            let mut l = Frame::from(any_reply_message(cx)).to_bytes_with_newline();
            let p = 1 + cx.draw(l.len() as u64 - 3) as usize;
            const NOT_HEX: &[u8] = b"+-GHIJKLMNOPQRSTUVWXYZghijklmnopqrstuvwxyz /@`.;_#\x00\x7f\xb1";
            l[p] = *cx.pick(NOT_HEX);
            cx.probe("reply_with_a_non_hex_character");
            (l, "non-hex-character", Some(None))
        }
        _ => (vec![], "empty-eof", None),
    }
}

fn any_reply_message(cx: &Cx) -> Message<'static> {
    match cx.draw(3) {
        0 => Message::ReportState(gens::address(cx), gens::ALL_STATES[cx.draw(13) as usize]),
        1 => Message::AckOperation(gens::address(cx), gens::ALL_OPS[cx.draw(6) as usize]),
        _ => Message::SendData(Offset(16 * cx.draw(4) as u16), gens::data(gens::payload(cx, 16))),
    }
}

const SENTINEL: &[u8] = b":01000304FFF9\r\n";

fn expected_reply(line: &[u8]) -> Option<Message<'static>> {
    Frame::from_bytes(line).ok().map(|f| to_static(&Message::from(f)))
}

pub struct C16;

/// One step of a conversation on one bus.
#[derive(Clone, Debug)]
struct StepPlan {
    m: Message<'static>,
    /// what the far end puts on the line for this step (may be empty)
    line: Vec<u8>,
    kind: &'static str,
    /// hard failure at this port operation, counted from the start of the step
    fail_rel: Option<usize>,
    /// the write at this port operation (counted from the start of the step) accepts nothing
    zero_rel: Option<usize>,
    only_bytes_judged: bool,
}

#[derive(Debug)]
struct StepLog {
    result: Result<Option<Message<'static>>, String>,
    ops: Vec<PortOp>,
    written: Vec<u8>,
    pos_before: usize,
    pos_after: usize,
    /// the port's incoming bytes as they were when the step ran
    incoming: Vec<u8>,
    fired: bool,
}

/// Runs the plan on ONE bus (so that anything a failed exchange leaves behind meets the next one).
fn run_plan(cx: &Cx, plan: &[StepPlan], eof: bool, benign: (bool, u64, bool)) -> Result<Vec<StepLog>, Violation> {
    let clock = SimClock::default();
    let mut wire = ScriptWire::new(cx, clock.clone(), vec![]);
    wire.timeout_when_empty = !eof;
    // every byte of a reply takes a little (simulated) time to arrive: nothing, one character time, 3 ms
    wire.sim_read_latency_ns = match benign.1 {
        0 => 0,
        6 => 520_833,
        _ => 3_000_000,
    };
    wire.frag = benign.0;
    wire.eintr_den = benign.1;
    wire.short_writes = benign.2;
    let shared = SharedWire::new(wire);
    let port = SimPort::new(shared.clone(), Device::default_odd());
    let mut bus = match SerialSignBus::try_new(port) {
        Ok(b) => b,
        Err(e) => {
            let _ = e;
            cx.discard("try-new-failed");
            return Ok(Vec::new());
        }
    };
    let _g = install_sleep(&clock, cx);
    let mut logs = Vec::new();
    for st in plan {
        let (ops0, w0, pos0, fail_abs) = {
            let mut w = shared.lock();
            w.incoming.extend_from_slice(&st.line);
            let fail_abs = st.fail_rel.map(|r| w.op_index + r);
            w.fail_at = fail_abs;
            w.zero_at = st.zero_rel.map(|r| w.op_index + r);
            w.zero_fired = false;
            (w.ops.len(), w.written.len(), w.pos, fail_abs)
        };
        // data chunks are handed over the way `Sign::send_pages` hands them over half of the time: the
        // payload BORROWED from the caller's buffer (`Cow::Borrowed`), not owned by the message
        let borrowed_buf: Vec<u8>;
        let msg: Message<'_> = match &st.m {
            Message::SendData(off, d) if (off.0 as usize + d.get().len()) % 2 == 0 => {
                borrowed_buf = d.get().to_vec();
                match flipdot_core::Data::try_new(&borrowed_buf[..]) {
                    Ok(b) => {
                        cx.probe("data_chunk_with_borrowed_payload");
                        Message::SendData(*off, b)
                    }
                    Err(_) => st.m.clone(),
                }
            }
            other => other.clone(),
        };
        let r = bus.process_message(msg);
        let mut w = shared.lock();
        let zero_fired = std::mem::take(&mut w.zero_fired);
        w.zero_at = None;
        logs.push(StepLog {
            result: match r {
                Ok(x) => Ok(x.map(|x| to_static(&x))),
                Err(e) => Err(e.to_string()),
            },
            ops: w.ops[ops0..].to_vec(),
            written: w.written[w0..].to_vec(),
            pos_before: pos0,
            pos_after: w.pos,
            incoming: w.incoming.clone(),
            fired: fail_abs.map(|j| w.op_index > j).unwrap_or(false) || zero_fired,
        });
    }
    Ok(logs)
}

/// Judges one step against the property, from the port's log only.
fn judge_step(cx: &Cx, i: usize, st: &StepPlan, lg: &StepLog, eof: bool, known: &[(Vec<u8>, Option<Message<'static>>)]) {
    let m = &st.m;
    let want_bytes = Frame::from(m.clone()).to_bytes_with_newline();
    let due = reply_due(m);
    if lg.fired {
        cx.probe("fault_at_port_operation");
        if lg.result.is_ok() {
            cx.fail("C16/failure-swallowed", format!("step #{i} {}: a port operation failed but the bus returned {:?}", show(m), lg.result.as_ref().map(show_opt)));
            return;
        }
        if !want_bytes.starts_with(&lg.written) {
            cx.fail("C16/wrong-bytes-written", format!("step #{i} {}: after a port failure the port holds {:?}", show(m), String::from_utf8_lossy(&lg.written)));
            return;
        }
        // The failure is what the call reports: nothing more goes to or comes from the port behind the
        // caller's back (a frame that is completed after the error was returned would be answered by the
        // sign, and the answer would meet the next request).
        let failed_at = lg.ops.iter().position(|o| match o {
            PortOp::Write { result: Err(k), .. } | PortOp::Read { result: Err(k), .. } => *k != std::io::ErrorKind::Interrupted,
            _ => false,
        });
        if let Some(k) = failed_at {
            // (further READS after a failed READ are let through: draining the rest of the reply line before
            // returning the error takes nothing that is not this exchange's and keeps to the letter of the
            // property; what must not happen is that anything is WRITTEN after a failure, or that the bus
            // goes on to read a reply after it failed to send the request)
            let failed_was_write = matches!(lg.ops[k], PortOp::Write { .. });
            let offending = lg.ops[k + 1..].iter().any(|o| failed_was_write || matches!(o, PortOp::Write { .. }));
            if k + 1 < lg.ops.len() && offending {
                let after = &lg.ops[k + 1..];
                let wrote: usize = after.iter().map(|o| if let PortOp::Write { bytes, .. } = o { bytes.len() } else { 0 }).sum();
                cx.fail(
                    "C16/port-used-after-failure",
                    format!("step #{i} {}: port operation #{k} of the step failed and the bus returned the error, yet {} more port operation(s) followed ({} byte(s) written)", show(m), after.len(), wrote),
                );
            }
        }
        return;
    }
    if lg.written != want_bytes {
        cx.fail(
            "C16/wrong-bytes-written",
            format!("step #{i} {}: wrote {:?}, the frame encoding with CRLF is {:?}", show(m), String::from_utf8_lossy(&lg.written), String::from_utf8_lossy(&want_bytes)),
        );
        return;
    }
    if st.only_bytes_judged {
        return;
    }
    let reads = lg.ops.iter().filter(|o| matches!(o, PortOp::Read { .. })).count();
    if due && reads == 0 {
        cx.fail("C16/no-read-when-reply-due", format!("step #{i} {} expects a reply but the port was never read", show(m)));
        return;
    }
    if !due && (reads > 0 || lg.pos_after != lg.pos_before) {
        cx.fail(
            "C16/read-when-no-reply-due",
            format!("step #{i} {} expects no reply but the port was read {} time(s) ({} byte(s) taken)", show(m), reads, lg.pos_after - lg.pos_before),
        );
        return;
    }
    if let Some(fr) = lg.ops.iter().position(|o| matches!(o, PortOp::Read { .. })) {
        if lg.ops[fr..].iter().any(|o| matches!(o, PortOp::Write { .. })) {
            cx.fail("C16/write-after-read", format!("step #{i}: the port was written again after the reply had been read"));
            return;
        }
    }
    if !due {
        if !matches!(lg.result, Ok(None)) {
            cx.fail("C16/wrong-result", format!("step #{i} {} expects no reply but the bus returned {:?}", show(m), lg.result.as_ref().map(show_opt)));
        }
        return;
    }
    // exactly one line: up to and including the first LF at or after the previous position
    let rest = &lg.incoming[lg.pos_before..];
    let (line, complete) = match rest.iter().position(|b| *b == b'\n') {
        Some(k) => (&rest[..=k], true),
        None => (rest, false),
    };
    if lg.pos_after - lg.pos_before != line.len() {
        cx.fail(
            "C16/reply-consumption",
            format!("step #{i} {}: {} byte(s) were taken from the port, the reply line has {}", show(m), lg.pos_after - lg.pos_before, line.len()),
        );
        return;
    }
    if !line.is_empty() && lg.pos_before + line.len() < lg.incoming.len() {
        cx.probe("bytes_follow_the_reply_line");
    }
    // A line cut short by end-of-stream is still "the line" (C15: up to the first LF or the end);
    // a line cut short by a read timeout is a read failure.
    let want = if complete || eof {
        match known.iter().find(|(l, _)| &l[..] == line) {
            // the simulator wrote this very line and knows what it is, whatever the decoder says
            Some((_, k)) => k.clone(),
            None => expected_reply(line),
        }
    } else {
        None
    };
    match (&lg.result, &want) {
        (Ok(Some(got)), Some(w)) if got == w => {}
        (Err(_), None) => {}
        (got, w) => cx.fail(
            "C16/wrong-result",
            format!("step #{i} {} with reply line {:?}: returned {:?}, wanted {}", show(m), String::from_utf8_lossy(line), got.as_ref().map(show_opt), match w {
                Some(w) => format!("Ok(Some({}))", show(w)),
                None => "an error".to_string(),
            }),
        ),
    }
}

impl Scenario for C16 {
    fn name(&self) -> &'static str {
        "c16-serial-exchange"
    }
    fn property(&self) -> &'static str {
        "C16"
    }
    fn runs(&self, tier: Tier) -> u64 {
        match tier {
            Tier::Quick => 100_000,
            Tier::Thorough => 8_000_000,
        }
    }
    fn describe(&self) -> &'static str {
        "real SerialSignBus (built by try_new) over a simulated port: conversations of 1-5 messages (one in sixteen: 6-12 messages with a far end that mostly fails to answer) on ONE bus (every message kind x reply-line kind: known, unknown, malformed, bad checksum, wrong length, timeout, EOF; earlier steps may suffer a port failure, so leftovers meet the next exchange) with fragmented reads, EINTR, short writes and writes that accept nothing; then for the last message a hard failure injected at every port operation index in turn; every step judged on the port's operation log"
    }
    fn run(&self, cx: &Cx) -> Result<(), Violation> {
        // mostly short conversations; now and then a long one in which the far end fails again and again
        let long = cx.chance(1, 16);
        if long {
            cx.probe("long_conversation_with_failing_replies");
        }
        let nsteps = if long { 6 + cx.draw(7) as usize } else { 1 + cx.draw(5) as usize };
        let eof = cx.chance(1, 4) && !long;
        let mut plan: Vec<StepPlan> = Vec::new();
        let mut known: Vec<(Vec<u8>, Option<Message<'static>>)> = Vec::new();
        for k in 0..nsteps {
            let looks_like_hello = cx.chance(1, 40);
            let m: Message<'static> = if k > 0 && cx.chance(1, 8) {
                // the very same message again (a caller retrying after a failure)
                cx.probe("same_message_repeated");
                plan[k - 1].m.clone()
            } else if looks_like_hello {
                cx.probe("unknown_that_looks_like_hello");
                Message::Unknown(Frame::from(Message::Hello(gens::address(cx))))
            } else if long && cx.chance(5, 6) {
                match cx.draw(3) {
                    0 => Message::Hello(gens::address(cx)),
                    1 => Message::QueryState(gens::address(cx)),
                    _ => Message::RequestOperation(gens::address(cx), gens::ALL_OPS[cx.draw(6) as usize]),
                }
            } else {
                any_message(cx)
            };
            let due = reply_due(&m);
            let (mut line, kind, know) = if due && k > 0 && cx.chance(1, 8) {
                // a late answer to the PREVIOUS request arrives instead of / before this one's
                cx.probe("reply_that_answers_the_previous_request");
                let prev_addr = match &plan[k - 1].m {
                    Message::Hello(a) | Message::QueryState(a) | Message::RequestOperation(a, _) | Message::PixelsComplete(a) | Message::Goodbye(a) => *a,
                    _ => gens::address(cx),
                };
                let r = match &plan[k - 1].m {
                    Message::RequestOperation(_, op) => Message::AckOperation(prev_addr, *op),
                    _ => Message::ReportState(prev_addr, gens::ALL_STATES[cx.draw(13) as usize]),
                };
                let l = Frame::from(r.clone()).to_bytes_with_newline();
                (l, "late-reply-to-previous", Some(Some(r)))
            } else if due && long && cx.chance(5, 6) {
                // a far end that keeps failing: no answer in time, or one that does not decode
                match cx.draw(3) {
                    0 => (vec![], "empty-timeout", None),
                    1 => {
                        let mut l = Frame::from(Message::ReportState(gens::address(cx), State::Unconfigured)).to_bytes_with_newline();
                        let p = l.len() - 3;
                        l[p] = if l[p] == b'0' { b'1' } else { b'0' };
                        (l, "bad-checksum", Some(None))
                    }
                    _ => (b"?\r\n".to_vec(), "malformed", Some(None)),
                }
            } else if due || cx.chance(1, 8) {
                reply_line(cx)
            } else {
                (vec![], "none", None)
            };
            if let Some(k) = know {
                known.push((line.clone(), k));
            }
            if !line.is_empty() && cx.chance(1, 2) {
                line.extend_from_slice(SENTINEL);
            }
            // earlier steps may hit a port failure; the last one is enumerated below
            let fail_rel = if k + 1 < nsteps && cx.chance(1, 4) { Some(cx.draw(48) as usize) } else { None };
            // ... or a port that suddenly accepts no more bytes (a write that returns 0)
            let zero_rel = if fail_rel.is_none() && cx.chance(1, 12) { Some(cx.draw(3) as usize) } else { None };
            cx.probe(&format!("{}:{}", msg_kind(&m), if due { kind } else { "no-reply-due" }));
            cx.note(|| format!("step #{k}: {}  far end sends [{kind}] {:?}  failure at op {:?}", show(&m), String::from_utf8_lossy(&line), fail_rel));
            // A message of kind Unknown is not a hello / query / request, whatever bytes it wraps:
            // no reply is due (the property speaks about message kinds).
            let _ = looks_like_hello;
            plan.push(StepPlan { m, line, kind, fail_rel, zero_rel, only_bytes_judged: false });
        }
        cx.event("plan", &plan.iter().map(|s| (stable_hash(&s.m), s.kind, s.fail_rel)).collect::<Vec<_>>());
        cx.set_nontrivial();
        if plan.len() >= 2 && plan[..plan.len() - 1].iter().any(|s| s.fail_rel.is_some()) {
            cx.probe("exchange_after_an_earlier_failure");
        }
        let benign = (cx.chance(1, 2), *cx.pick(&[0u64, 6, 24]), cx.chance(1, 2));

        // ---- pass 1: benign delivery faults drawn from the tape ------------------------------
        let logs = run_plan(cx, &plan, eof, benign)?;
        if logs.len() != plan.len() {
            return Ok(()); // the bus could not even be built (C20's business): no verdict
        }
        for (i, (st, lg)) in plan.iter().zip(logs.iter()).enumerate() {
            judge_step(cx, i, st, lg, eof, &known);
            cx.verdict()?;
            if lg.result.is_err() && i + 1 < plan.len() {
                cx.probe("step_follows_a_failed_step");
            }
        }

        // ---- pass 2: a hard failure at each port operation of the last step ------------------
        let base = run_plan(cx, &plan, eof, (false, 0, false))?;
        if base.len() != plan.len() {
            return Ok(());
        }
        let last = plan.len() - 1;
        let nops = base[last].ops.len();
        let step = if nops > 400 { nops / 40 } else if nops > 60 { 1 + cx.draw(9) as usize } else { 1 };
        let mut j = if step > 1 { cx.draw(step as u64) as usize } else { 0 };
        while j < nops {
            let mut p2 = plan.clone();
            p2[last].fail_rel = Some(j);
            let lj = run_plan(cx, &p2, eof, (false, 0, false))?;
            if lj.len() != p2.len() {
                return Ok(());
            }
            if !lj[last].fired {
                cx.discard("fault-not-reached");
                return cx.verdict();
            }
            cx.probe("fault_at_each_op_index");
            for (i, (st, lg)) in p2.iter().zip(lj.iter()).enumerate() {
                judge_step(cx, i, st, lg, eof, &known);
            }
            cx.verdict()?;
            j += step;
        }
        cx.verdict()
    }
}

// ---------------------------------------------------------------------------------------------
// C18
// ---------------------------------------------------------------------------------------------

pub struct C18;

const MS: u64 = 1_000_000;

impl Scenario for C18 {
    fn name(&self) -> &'static str {
        "c18-pacing"
    }
    fn property(&self) -> &'static str {
        "C18"
    }
    fn runs(&self, tier: Tier) -> u64 {
        match tier {
            Tier::Quick => 300_000,
            Tier::Thorough => 20_000_000,
        }
    }
    fn describe(&self) -> &'static str {
        "real SerialSignBus over a simulated port with the sleep seam routed to the simulated clock: sequences of 2-6 messages (one in 64: a poll of 52-120 requests all answered in-progress) over all kinds with replies over all 13 states x own/foreign address, all 6 acks and unknown frames; a sixth of the sequences meet a port whose flush fails once (only a tree that flushes notices), a sixth have the caller re-create the bus on the same port between messages; intervals = simulated + real elapsed time at port boundaries"
    }
    fn run(&self, cx: &Cx) -> Result<(), Violation> {
        // now and then a long poll: the caller asks 52-120 times in a row and the sign is busy every time
        let long_poll = cx.chance(1, 64);
        if long_poll {
            cx.probe("long_run_of_in_progress_reports");
        }
        // ... or a bus that has seen more than a hundred successful transfers in a row before the
        // data chunks that are looked at
        let long_clean = !long_poll && cx.chance(1, 64);
        if long_clean {
            cx.probe("long_run_of_successful_transfer_reports");
        }
        let n = if long_poll {
            52 + cx.draw(69)
        } else if long_clean {
            106 + cx.draw(16)
        } else {
            2 + cx.draw(5)
        };
        let mut msgs: Vec<Message<'static>> = Vec::new();
        let mut incoming: Vec<u8> = Vec::new();
        let mut replies: Vec<Option<Message<'static>>> = Vec::new();
        for i in 0..n {
            if long_clean && i + 3 < n {
                let a = gens::address(cx);
                let r = Message::ReportState(a, if cx.chance(1, 2) { State::ConfigReceived } else { State::PixelsReceived });
                incoming.extend(Frame::from(r.clone()).to_bytes_with_newline());
                replies.push(Some(r));
                msgs.push(Message::QueryState(a));
                continue;
            }
            let m = if long_clean && (i + 3 == n || i + 1 == n) {
                Message::SendData(Offset(16 * cx.draw(4) as u16), gens::data(gens::payload(cx, 16)))
            } else if long_poll {
                match cx.draw(8) {
                    0 => Message::Hello(gens::address(cx)),
                    1 => Message::RequestOperation(gens::address(cx), gens::ALL_OPS[cx.draw(6) as usize]),
                    _ => Message::QueryState(gens::address(cx)),
                }
            } else {
                match cx.draw(4) {
                    0 => Message::SendData(Offset(*cx.pick(&[0u16, 16, 32])), gens::data(gens::payload(cx, gens::chunk_len(cx)))),
                    1 => Message::QueryState(gens::address(cx)),
                    _ => any_message(cx),
                }
            };
            if reply_due(&m) {
                let r = match if long_poll { 0 } else { cx.draw(4) } {
                    0 => Message::ReportState(gens::address(cx), *cx.pick(&[State::PageLoadInProgress, State::PageShowInProgress])),
                    1 => Message::ReportState(gens::address(cx), gens::ALL_STATES[cx.draw(13) as usize]),
                    2 => Message::AckOperation(gens::address(cx), gens::ALL_OPS[cx.draw(6) as usize]),
                    _ if cx.chance(1, 3) => {
                        // a near miss of an in-progress report: the same frame with one byte more, or under
                        // another message type -- it decodes to something else and is not paced
                        cx.probe("near_miss_of_an_in_progress_report");
                        let f = Frame::from(Message::ReportState(gens::address(cx), *cx.pick(&[State::PageLoadInProgress, State::PageShowInProgress])));
                        let mut d = f.data().to_vec();
                        let mut ty = f.message_type().0;
                        if cx.chance(1, 2) {
                            d.push(cx.draw(256) as u8);
                        } else {
                            ty = (ty + 1 + cx.draw(6) as u8) % 8;
                        }
                        to_static(&Message::from(Frame::new(f.address(), flipdot_core::MsgType(ty), gens::data(d))))
                    }
                    _ => Message::Unknown(gens::unknown_frame(cx)),
                };
                if !long_poll && cx.chance(1, 12) {
                    // line noise in front of the reply: one garbled, newline-terminated line
                    cx.probe("noise_line_before_the_reply");
                    let n = 1 + cx.draw(6) as usize;
                    let mut g: Vec<u8> = cx.bytes(n).into_iter().map(|b| if b == b'\n' { b'?' } else { b }).collect();
                    g.extend_from_slice(b"\r\n");
                    incoming.extend(g);
                }
                incoming.extend(Frame::from(r.clone()).to_bytes_with_newline());
                replies.push(Some(r));
            } else {
                replies.push(None);
            }
            msgs.push(m);
        }
        cx.set_nontrivial();
        let clock = SimClock::default();
        let mut wire = ScriptWire::new(cx, clock.clone(), incoming);
        wire.frag = cx.chance(1, 2);
        wire.short_writes = cx.chance(1, 2);
        // The far end takes time to answer: per-read latency on the simulated clock, and (rarely,
        // because it costs real time) a few real milliseconds before a reply, since the code under
        // test can read the real monotonic clock without going through any seam.
        wire.sim_read_latency_ns = *cx.pick(&[0u64, 520_833, 5_000_000]);
        let real_latency = cx.chance(1, 48);
        let real_idle = !long_poll && cx.chance(1, 6000);
        // one sequence in 1500: the far end takes 55-125 ms of REAL time to answer one of the requests
        let slow_reply_at = if !long_poll && !long_clean && cx.chance(1, 1500) { Some(cx.draw(n)) } else { None };
        let slow_write = cx.chance(1, 1500);
        let unpark_token = cx.chance(1, 4);
        if unpark_token {
            cx.probe("caller_thread_holds_an_unpark_token");
        }
        // a tree that flushes the port meets a port whose flush can fail once (the unchanged tree never flushes)
        if cx.chance(1, 6) {
            let kind = *cx.pick(&[std::io::ErrorKind::Interrupted, std::io::ErrorKind::Other, std::io::ErrorKind::TimedOut, std::io::ErrorKind::BrokenPipe]);
            wire.flush_fail_at = Some((cx.draw(6) as usize, kind));
        }
        // now and then the caller drops the bus between two messages and builds a new one on the same port
        let recreate = cx.chance(1, 6);
        let shared = SharedWire::new(wire);
        let port = SimPort::new(shared.clone(), Device::default_odd());
        let mut bus = match SerialSignBus::try_new(port) {
            Ok(b) => b,
            Err(e) => {
                cx.discard("try-new-failed");
                return cx.verdict();
            }
        };
        let _g = install_sleep(&clock, cx);
        // (op range, call start, call end) per message, in (sim ns, real instant)
        struct Span {
            ops: (usize, usize),
            start: (u64, Instant),
            end: (u64, Instant),
            /// the call returned an error although the whole data chunk had been written (flush failure)
            errored: bool,
        }
        let mut spans: Vec<Span> = Vec::new();
        for (i, m) in msgs.iter().enumerate() {
            if recreate && i > 0 && cx.chance(1, 2) {
                cx.probe("bus_recreated_on_same_port");
                drop(bus);
                bus = match SerialSignBus::try_new(SimPort::new(shared.clone(), Device::default_odd())) {
                    Ok(b) => b,
                    Err(_) => {
                        cx.discard("try-new-failed");
                        return cx.verdict();
                    }
                };
            }
            let o0 = shared.lock().ops.len();
            if slow_write && matches!(m, Message::SendData(..)) {
                // the port's write blocks for longer than the pacing delay (real time)
                shared.lock().real_delay_next_write = Some(Duration::from_millis(32 + cx.draw(8)));
                cx.probe("data_chunk_write_blocks_longer_than_30ms");
            }
            if real_idle && matches!(&replies[i], Some(Message::ReportState(_, State::PageLoadInProgress | State::PageShowInProgress))) {
                // the caller was away for more than a second of REAL time before this request (the code
                // under test can read the real monotonic clock without passing any seam)
                cx.probe("real_idle_second_before_request");
                std::thread::sleep(Duration::from_millis(1050 + cx.draw(150)));
            }
            if real_latency && matches!(&replies[i], Some(Message::ReportState(_, State::PageLoadInProgress | State::PageShowInProgress))) {
                shared.lock().real_delay_next_read = Some(Duration::from_millis(2 + cx.draw(3)));
                cx.probe("reply_with_real_latency");
            }
            let mut injected_real = Duration::ZERO;
            if slow_reply_at == Some(i as u64) && replies[i].is_some() {
                cx.probe("reply_after_more_than_50ms_of_real_time");
                injected_real = Duration::from_millis(55 + cx.draw(71));
                shared.lock().real_delay_next_read = Some(injected_real);
            }
            if unpark_token {
                // the calling thread holds a wake-up token (an application that wakes its sign worker with
                // `unpark`): a pause is owed all the same
                std::thread::current().unpark();
            }
            let start = (clock.now(), Instant::now());
            let slept0 = SLEPT_NS.with(|s| s.get());
            let r = bus.process_message(m.clone());
            let end = (clock.now(), Instant::now());
            let slept = SLEPT_NS.with(|s| s.get()) - slept0;
            // Paced = a data chunk, or an exchange in which the bus actually received an in-progress
            // report (judged from the bytes the port handed out, not from the script: a tree that
            // reads a reply where none is due is C16's business, not a pacing error).
            let read_bytes: Vec<u8> = {
                let w = shared.lock();
                w.ops[o0..].iter().filter_map(|o| if let PortOp::Read { bytes, .. } = o { Some(bytes.clone()) } else { None }).flatten().collect()
            };
            // what the bus last received: the last complete line among the bytes it took in this exchange
            let last_line: &[u8] = {
                let body = read_bytes.strip_suffix(b"\n").unwrap_or(&read_bytes);
                match body.iter().rposition(|b| *b == b'\n') {
                    Some(k) => &read_bytes[k + 1..],
                    None => &read_bytes[..],
                }
            };
            let received = Frame::from_bytes(last_line).ok().map(|f| to_static(&Message::from(f)));
            if received != replies[i] {
                // the bus did not read exactly the scripted reply: no verdict on this run
                cx.discard("reply-not-read-as-scripted");
                return cx.verdict();
            }
            let paced = matches!(m, Message::SendData(..))
                || matches!(&received, Some(Message::ReportState(_, State::PageLoadInProgress | State::PageShowInProgress)));
            let mut errored = false;
            if r.is_err() {
                // An injected flush failure after a completely written data chunk: the call may fail, the
                // pacing towards the next write is still owed. Anything else: no verdict on this run.
                let flush_failed = std::mem::replace(&mut shared.lock().flush_failed, false);
                let written: Vec<u8> = {
                    let w = shared.lock();
                    w.ops[o0..].iter().filter_map(|o| if let PortOp::Write { bytes, .. } = o { Some(bytes.clone()) } else { None }).flatten().collect()
                };
                if flush_failed && matches!(m, Message::SendData(..)) && written == Frame::from(m.clone()).to_bytes_with_newline() {
                    cx.probe("flush_failed_after_complete_data_chunk");
                    errored = true;
                } else if !flush_failed && matches!(&received, Some(Message::ReportState(_, State::PageLoadInProgress | State::PageShowInProgress))) {
                    // the bus read an in-progress report and then reported an error of its own making:
                    // the pause before the return is owed whatever the call returns
                    cx.probe("error_returned_after_in_progress_report");
                    errored = true;
                } else {
                    cx.discard("exchange-failed");
                    return cx.verdict();
                }
            }
            cx.hash_event("exchange", &(stable_hash(m), stable_hash(&replies[i]), end.0 - start.0));
            cx.probe(&format!("{}:{}", msg_kind(m), match &replies[i] {
                None => "no-reply".to_string(),
                Some(Message::ReportState(_, s)) => format!("{s:?}"),
                Some(Message::AckOperation(_, o)) => format!("Ack{o:?}"),
                Some(_) => "Unknown".to_string(),
            }));
            // (c) unpaced exchanges are not delayed by a pacing amount. Real time can only add
            // noise, so an exchange that looks slow is repeated (same message, same reply) and
            // the minimum counts.
            if !paced && !errored {
                // delay added by the bus = what it slept (simulated) + real time spent in the call;
                // the far end's simulated latency is the port's time, not a delay of the bus
                // (what the simulator itself made the far end wait in real time is the port's time too)
                let mut best = (u128::from(slept) + end.1.duration_since(start.1).as_nanos()).saturating_sub(injected_real.as_nanos());
                let mut tries = 1;
                while best >= u128::from(30 * MS) && tries < 5 {
                    tries += 1;
                    cx.probe("unpaced_exchange_repeated_for_noise");
                    match measure_single(cx, m, &replies[i], injected_real) {
                        Some(t) => best = best.min(t),
                        None => break,
                    }
                }
                if best >= u128::from(30 * MS) {
                    cx.fail(
                        "C18/unpaced-exchange-delayed",
                        format!("{} => {} took {} ms (minimum over {tries} trials); only data chunks and in-progress reports are paced", show(m), show_opt(&replies[i]), best / u128::from(MS)),
                    );
                    return cx.verdict();
                }
            }
            spans.push(Span { ops: (o0, shared.lock().ops.len()), start, end, errored });
        }
        // (a) and (b): lower bounds at the port boundaries
        let wire_guard = shared.lock();
        let wire = &*wire_guard;
        let op_end = |k: usize| -> (u64, Instant) {
            let ns = match &wire.ops[k] {
                PortOp::Write { end_ns, .. } | PortOp::Read { end_ns, .. } => *end_ns,
            };
            (ns, wire.real[k].1)
        };
        let op_start = |k: usize| -> (u64, Instant) {
            let ns = match &wire.ops[k] {
                PortOp::Write { start_ns, .. } | PortOp::Read { start_ns, .. } => *start_ns,
            };
            (ns, wire.real[k].0)
        };
        let gap = |a: (u64, Instant), b: (u64, Instant)| -> u128 { u128::from(b.0.saturating_sub(a.0)) + b.1.saturating_duration_since(a.1).as_nanos() };
        for (i, m) in msgs.iter().enumerate() {
            let sp = &spans[i];
            if matches!(m, Message::SendData(..)) {
                let last_write = (sp.ops.0..sp.ops.1).rev().find(|k| matches!(wire.ops[*k], PortOp::Write { .. }));
                let Some(lw) = last_write else {
                    cx.discard("no-write");
                    return cx.verdict();
                };
                // Only the distance to the next write on this port is owed (the property speaks of the next
                // message being written, not of the return to the caller); a bus that returns at once and
                // pauses before its next write is within it. `sp.end` is therefore not looked at here.
                let _ = sp.errored;
                if i + 1 < msgs.len() {
                    let nw = (spans[i + 1].ops.0..spans[i + 1].ops.1).find(|k| matches!(wire.ops[*k], PortOp::Write { .. }));
                    if let Some(nw) = nw {
                        let g = gap(op_end(lw), op_start(nw));
                        if g < u128::from(30 * MS) {
                            cx.fail(
                                "C18/next-write-too-soon-after-data-chunk",
                                format!("{} was written {} us after the data chunk; at least 30 ms are required", show(&msgs[i + 1]), g / 1000),
                            );
                            return cx.verdict();
                        }
                        cx.probe("chunk_followed_by_paced_write");
                    }
                }
            }
            if let Some(Message::ReportState(_, State::PageLoadInProgress | State::PageShowInProgress)) = &replies[i] {
                let last_read = (sp.ops.0..sp.ops.1).rev().find(|k| matches!(&wire.ops[*k], PortOp::Read { result: Ok(n), .. } if *n > 0));
                let Some(lr) = last_read else {
                    cx.discard("no-read");
                    return cx.verdict();
                };
                let g = gap(op_end(lr), sp.end);
                if g < u128::from(100 * MS) {
                    cx.fail(
                        "C18/returned-too-soon-after-in-progress-report",
                        format!("the bus returned {} us after receiving {}; at least 100 ms are required", g / 1000, show_opt(&replies[i])),
                    );
                    return cx.verdict();
                }
                cx.probe("in_progress_report_paced");
            }
            let _ = sp.start;
        }
        cx.verdict()
    }
}

/// One exchange on a fresh bus; returns simulated + real nanoseconds of `process_message`.
/// The far end answers after the same real delay as in the exchange under suspicion (subtracted again).
fn measure_single(cx: &Cx, m: &Message<'static>, reply: &Option<Message<'static>>, far_end_real_delay: Duration) -> Option<u128> {
    let clock = SimClock::default();
    let incoming = reply.as_ref().map(|r| Frame::from(r.clone()).to_bytes_with_newline()).unwrap_or_default();
    let mut wire = ScriptWire::new(cx, clock.clone(), incoming);
    if far_end_real_delay > Duration::ZERO {
        wire.real_delay_next_read = Some(far_end_real_delay);
    }
    let port: Port = SimPort::new(wire, Device::default_odd());
    let mut bus = SerialSignBus::try_new(port).ok()?;
    let _g = install_sleep(&clock, cx);
    let s = (SLEPT_NS.with(|s| s.get()), Instant::now());
    let r = bus.process_message(m.clone());
    let e = (SLEPT_NS.with(|s| s.get()), Instant::now());
    r.ok()?;
    Some((u128::from(e.0 - s.0) + e.1.duration_since(s.1).as_nanos()).saturating_sub(far_end_real_delay.as_nanos()))
}

// ---------------------------------------------------------------------------------------------
// C20
// ---------------------------------------------------------------------------------------------

pub struct C20;

const BAUDS: [usize; 12] = [110, 300, 600, 1200, 2400, 4800, 9600, 19200, 38400, 57600, 115200, 0];
const FAILS: [CfgFail; 5] = [CfgFail::None, CfgFail::ReadSettings, CfgFail::SetBaudRate, CfgFail::WriteSettings, CfgFail::SetTimeout];

impl C20 {
    const PRODUCT: u64 = 12 * 4 * 3 * 2 * 3 * 3 * 5;
}

impl Scenario for C20 {
    fn name(&self) -> &'static str {
        "c20-port-setup"
    }
    fn property(&self) -> &'static str {
        "C20"
    }
    fn runs(&self, tier: Tier) -> u64 {
        match tier {
            Tier::Quick => Self::PRODUCT * 4,
            Tier::Thorough => Self::PRODUCT * 400,
        }
    }
    fn describe(&self) -> &'static str {
        "configure_port, SerialSignBus::try_new and Odk::try_new on a simulated serial device: the full product of prior settings (11 standard baud rates + BaudOther, 4 character sizes, 3 parities, 2 stop bits, 3 flow controls) x 3 entry points x failure at {none, read_settings, set_baud_rate, write_settings, set_timeout}, enumerated by run index; BaudOther values and caller timeouts drawn; a quarter of the refusals are transient (the call refuses once or twice, then accepts)"
    }
    fn run(&self, cx: &Cx) -> Result<(), Violation> {
        let mut i = cx.index() % Self::PRODUCT;
        let mut take = |n: u64| {
            let v = i % n;
            i /= n;
            v
        };
        let fail = FAILS[take(5) as usize];
        let entry = take(3);
        let flow = take(3) as u8;
        let stop = take(2) as u8;
        let parity = take(3) as u8;
        let cs = take(4) as u8;
        let bi = take(12) as usize;
        let baud = if BAUDS[bi] == 0 {
            // other speeds, including ones that alias 19200 in a narrower integer
            if cx.chance(1, 2) {
                // any speed within a few percent of 19200 (adapters report odd "actual" rates)
                18_200 + cx.draw(2_000) as usize
            } else {
                *cx.pick(&[14400usize, 1, 250000, 19201, 19199, 0, 19200 + (1usize << 32), 19200 + (1usize << 16), 19200 + (3usize << 32), usize::MAX])
            }
        } else {
            BAUDS[bi]
        };
        let baud_unreported = cx.chance(1, 8);
        if baud_unreported {
            cx.probe("prior_speed_unreported");
        }
        // one prior state in eight holds a framing value the device cannot report (getter gives None)
        let unreported = if cx.chance(1, 8) {
            cx.probe("prior_framing_value_unreported");
            1 + cx.draw(15) as u8
        } else {
            0
        };
        let prior = SimSettings { baud: BaudRate2(baud), char_size: cs, parity, stop_bits: stop, flow, fail_set_baud: false, fail_kind: 0, baud_unreported, unreported };
        let mut dev = Device::new(prior);
        dev.fail = fail;
        dev.fail_kind = cx.draw(crate::port::ERR_KINDS.len() as u64) as usize;
        let want_kind = crate::port::ERR_KINDS[dev.fail_kind];
        // a refusal is permanent mostly, but some devices refuse once or twice and then accept
        let transient = fail != CfgFail::None && cx.chance(1, 4);
        if transient {
            dev.fail_budget.set(1 + cx.draw(2) as u32);
            cx.probe("transient_refusal");
        }
        dev.timeout = Duration::from_millis(*cx.pick(&[1u64, 0, 5000, 10000, 77]));
        let prior_timeout = dev.timeout;
        // the caller's value: whole milliseconds mostly, but also sub-millisecond, odd and huge ones
        let caller_timeout = match cx.draw(10) {
            0 => Duration::from_micros(1302),
            1 => Duration::from_micros(900),
            2 => Duration::from_nanos(1),
            3 => Duration::MAX,
            4 => Duration::new(u64::MAX / 1000, 999_999_999),
            5 => Duration::from_nanos(1 + cx.draw(5_000_000_000)),
            _ => Duration::from_millis(*cx.pick(&[5000u64, 1, 250, 10_000, 60_000, 0])),
        };
        cx.event("case", &(prior, entry, fail, caller_timeout.as_nanos(), dev.fail_budget.get()));
        cx.note(|| format!("prior {prior:?}, entry {}, failure at {fail:?}", ["configure_port", "SerialSignBus::try_new", "Odk::try_new"][entry as usize]));
        cx.set_nontrivial();
        cx.probe(&format!("entry{entry}:{fail:?}"));
        if fail != CfgFail::None {
            cx.probe(&format!("refusal_kind:{want_kind:?}"));
        }
        let wire = ScriptWire::new(cx, SimClock::default(), vec![]);
        let mut port = SimPort::new(wire, dev);
        // run the entry point; get back (result is ok?, error kind, device state)
        let (ok, err, dev_after): (bool, Option<serial_core::ErrorKind>, Device) = match entry {
            0 => {
                let r = flipdot_serial::configure_port(&mut port, caller_timeout);
                if r.is_ok() && fail == CfgFail::None && cx.chance(1, 2) {
                    // set the same port up again with another timeout: the second call counts too
                    cx.probe("configured_twice");
                    let t2 = Duration::from_millis(*cx.pick(&[250u64, 5000, 1, 123_456]));
                    let r2 = flipdot_serial::configure_port(&mut port, t2);
                    if r2.is_err() || port.dev.timeout != t2 || !port.dev.settings.is_19200_8n1_noflow() {
                        cx.fail(
                            "C20/second-setup-wrong",
                            format!("configure_port called again with timeout {t2:?}: result {:?}, timeout now {:?}, settings {:?}", r2.map_err(|e| e.kind()), port.dev.timeout, port.dev.settings),
                        );
                        return cx.verdict();
                    }
                    port.dev.timeout = caller_timeout;
                }
                (r.is_ok(), r.err().map(|e| e.kind()), port.dev.clone())
            }
            1 => match SerialSignBus::try_new(port) {
                Ok(b) => (true, None, b.port().dev.clone()),
                Err(e) => (false, Some(e.kind()), Device::new(prior)),
            },
            _ => {
                // Odk does not expose its port: watch the device through a shared cell.
                let shared = std::rc::Rc::new(std::cell::RefCell::new(None::<Device>));
                let wp = WatchPort { inner: port, out: shared.clone() };
                let r = Odk::try_new(wp, VirtualSignBus::new(vec![]));
                let d = shared.borrow().clone();
                match r {
                    Ok(_odk) => (true, None, d.unwrap_or_else(|| Device::new(prior))),
                    Err(e) => (false, Some(e.kind()), d.unwrap_or_else(|| Device::new(prior))),
                }
            }
        };
        let want_timeout = match entry {
            0 => caller_timeout,
            1 => Duration::from_secs(5),
            _ => Duration::from_secs(10),
        };
        if fail == CfgFail::None {
            if !ok {
                cx.fail("C20/setup-failed-without-fault", format!("entry {entry}: returned an error ({err:?}) although no configuration call failed"));
                return cx.verdict();
            }
            if !dev_after.settings.is_19200_8n1_noflow() {
                cx.fail("C20/wrong-settings", format!("entry {entry}: from {prior:?} the port ended at {:?}; wanted 19200 baud, 8 bits, no parity, 1 stop bit, no flow control", dev_after.settings));
                return cx.verdict();
            }
            if dev_after.timeout != want_timeout {
                cx.fail("C20/wrong-timeout", format!("entry {entry}: read timeout is {:?} (was {:?}), wanted {:?}", dev_after.timeout, prior_timeout, want_timeout));
                return cx.verdict();
            }
            if !dev_after.calls.iter().any(|c| matches!(c, CfgCall::SetTimeout(_))) {
                cx.fail("C20/timeout-not-applied", format!("entry {entry}: set_timeout was never called"));
                return cx.verdict();
            }
        } else if transient {
            // the port refused once or twice and accepts afterwards: an error is fine, and so is a constructor that
            // tried again -- but an object handed out must sit on a fully configured port
            if ok {
                cx.probe("transient_refusal_survived");
                if !dev_after.settings.is_19200_8n1_noflow() || dev_after.timeout != want_timeout || !dev_after.calls.iter().any(|c| matches!(c, CfgCall::SetTimeout(_))) {
                    cx.fail(
                        "C20/half-configured-after-transient-refusal",
                        format!(
                            "entry {entry}: the port refused at {fail:?} {} time(s) and accepted afterwards; the constructor returned Ok with the port at {:?}, timeout {:?} (wanted 19200 8N1 no flow control, {:?})",
                            if dev_after.fail_budget.get() == 0 { "its budgeted" } else { "some" },
                            dev_after.settings,
                            dev_after.timeout,
                            want_timeout
                        ),
                    );
                    return cx.verdict();
                }
            } else if err != Some(want_kind) {
                cx.fail("C20/wrong-error", format!("entry {entry}: the port refused at {fail:?} ({want_kind:?}, transient) but the error returned is {err:?}"));
                return cx.verdict();
            }
        } else {
            if ok {
                cx.fail("C20/failure-swallowed", format!("entry {entry}: the port refused at {fail:?} but the constructor returned Ok"));
                return cx.verdict();
            }
            if err != Some(want_kind) {
                cx.fail("C20/wrong-error", format!("entry {entry}: the port refused at {fail:?} ({want_kind:?}) but the error returned is {err:?}"));
                return cx.verdict();
            }
        }
        // A port made of two halves (a TX/RX pair): it implements `SerialPort` itself and hands every
        // configuration request to both halves, so the setup closure runs once per half. The port is
        // at 19200 8N1 only if both halves are.
        if fail == CfgFail::None && entry < 2 && cx.chance(1, 4) {
            cx.probe("port_of_two_halves_configured");
            let mut d1 = Device::new(prior);
            d1.timeout = prior_timeout;
            let other = SimSettings { baud: BaudRate2(BAUDS[cx.draw(11) as usize]), char_size: cx.draw(4) as u8, parity: cx.draw(3) as u8, stop_bits: cx.draw(2) as u8, flow: cx.draw(3) as u8, fail_set_baud: false, fail_kind: 0, baud_unreported: false, unreported: 0 };
            let mut d2 = Device::new(other);
            d2.timeout = Duration::from_millis(3);
            let mut pair = PairPort { tx: SimPort::new(ScriptWire::new(cx, SimClock::default(), vec![]), d1), rx: SimPort::new(ScriptWire::new(cx, SimClock::default(), vec![]), d2) };
            let halves: Option<(Device, Device)> = if entry == 0 {
                flipdot_serial::configure_port(&mut pair, caller_timeout).ok().map(|_| (pair.tx.dev.clone(), pair.rx.dev.clone()))
            } else {
                SerialSignBus::try_new(pair).ok().map(|b| (b.port().tx.dev.clone(), b.port().rx.dev.clone()))
            };
            match halves {
                None => {
                    cx.fail("C20/setup-failed-without-fault", format!("entry {entry}: a port of two halves, no configuration call failed, yet an error was returned"));
                    return cx.verdict();
                }
                Some((t, r)) => {
                    for (which, d) in [("transmit", &t), ("receive", &r)] {
                        if !d.settings.is_19200_8n1_noflow() {
                            cx.fail("C20/wrong-settings", format!("entry {entry}: port of two halves: the {which} half ended at {:?}; wanted 19200 baud, 8 bits, no parity, 1 stop bit, no flow control", d.settings));
                            return cx.verdict();
                        }
                        if d.timeout != want_timeout {
                            cx.fail("C20/wrong-timeout", format!("entry {entry}: port of two halves: the {which} half has read timeout {:?}, wanted {:?}", d.timeout, want_timeout));
                            return cx.verdict();
                        }
                    }
                }
            }
        }
        cx.verdict()
    }
}

/// A port of two halves that implements `SerialPort` itself (not through serial-core's blanket impl
/// for devices): every configuration request goes to both halves.
struct PairPort {
    tx: Port,
    rx: Port,
}

impl std::io::Read for PairPort {
    fn read(&mut self, buf: &mut [u8]) -> std::io::Result<usize> {
        self.rx.read(buf)
    }
}

impl std::io::Write for PairPort {
    fn write(&mut self, buf: &[u8]) -> std::io::Result<usize> {
        self.tx.write(buf)
    }
    fn flush(&mut self) -> std::io::Result<()> {
        Ok(())
    }
}

impl serial_core::SerialPort for PairPort {
    fn timeout(&self) -> Duration {
        serial_core::SerialPort::timeout(&self.rx)
    }
    fn set_timeout(&mut self, t: Duration) -> serial_core::Result<()> {
        serial_core::SerialPort::set_timeout(&mut self.tx, t)?;
        serial_core::SerialPort::set_timeout(&mut self.rx, t)
    }
    fn configure(&mut self, s: &serial_core::PortSettings) -> serial_core::Result<()> {
        serial_core::SerialPort::configure(&mut self.tx, s)?;
        serial_core::SerialPort::configure(&mut self.rx, s)
    }
    fn reconfigure(&mut self, setup: &dyn Fn(&mut dyn serial_core::SerialPortSettings) -> serial_core::Result<()>) -> serial_core::Result<()> {
        serial_core::SerialPort::reconfigure(&mut self.tx, setup)?;
        serial_core::SerialPort::reconfigure(&mut self.rx, setup)
    }
    fn set_rts(&mut self, _: bool) -> serial_core::Result<()> {
        Ok(())
    }
    fn set_dtr(&mut self, _: bool) -> serial_core::Result<()> {
        Ok(())
    }
    fn read_cts(&mut self) -> serial_core::Result<bool> {
        Ok(true)
    }
    fn read_dsr(&mut self) -> serial_core::Result<bool> {
        Ok(true)
    }
    fn read_ri(&mut self) -> serial_core::Result<bool> {
        Ok(false)
    }
    fn read_cd(&mut self) -> serial_core::Result<bool> {
        Ok(true)
    }
}

/// Port wrapper that publishes the device state after every configuration call (for `Odk`,
/// which keeps its port private).
struct WatchPort {
    inner: Port,
    out: std::rc::Rc<std::cell::RefCell<Option<Device>>>,
}

impl std::io::Read for WatchPort {
    fn read(&mut self, buf: &mut [u8]) -> std::io::Result<usize> {
        self.inner.read(buf)
    }
}

impl std::io::Write for WatchPort {
    fn write(&mut self, buf: &[u8]) -> std::io::Result<usize> {
        self.inner.write(buf)
    }
    fn flush(&mut self) -> std::io::Result<()> {
        Ok(())
    }
}

impl serial_core::SerialDevice for WatchPort {
    type Settings = SimSettings;
    fn read_settings(&self) -> serial_core::Result<SimSettings> {
        let r = self.inner.read_settings();
        *self.out.borrow_mut() = Some(self.inner.dev.clone());
        r
    }
    fn write_settings(&mut self, s: &SimSettings) -> serial_core::Result<()> {
        let r = self.inner.write_settings(s);
        *self.out.borrow_mut() = Some(self.inner.dev.clone());
        r
    }
    fn timeout(&self) -> Duration {
        serial_core::SerialDevice::timeout(&self.inner)
    }
    fn set_timeout(&mut self, t: Duration) -> serial_core::Result<()> {
        let r = serial_core::SerialDevice::set_timeout(&mut self.inner, t);
        *self.out.borrow_mut() = Some(self.inner.dev.clone());
        r
    }
    fn set_rts(&mut self, _: bool) -> serial_core::Result<()> {
        Ok(())
    }
    fn set_dtr(&mut self, _: bool) -> serial_core::Result<()> {
        Ok(())
    }
    fn read_cts(&mut self) -> serial_core::Result<bool> {
        Ok(true)
    }
    fn read_dsr(&mut self) -> serial_core::Result<bool> {
        Ok(true)
    }
    fn read_ri(&mut self) -> serial_core::Result<bool> {
        Ok(false)
    }
    fn read_cd(&mut self) -> serial_core::Result<bool> {
        Ok(true)
    }
}
