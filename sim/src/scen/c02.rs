//! C02: a valid frame damaged in transit by one fault is rejected or decodes to the original.
//!
//! Sender: `Frame::write` (or `to_bytes`) into the simulated line. The line's damage injector
//! applies exactly one fault. Receiver: `Frame::from_bytes` on the damaged line and `Frame::read`
//! from the damaged stream (followed by EOF) under tape-drawn EINTR. Per sampled frame the
//! single-fault space is ENUMERATED: every position x every replacement byte, every deletion,
//! every duplication, every adjacent swap of unequal characters, every proper prefix.

use flipdot_core::{Frame, FrameError};

use crate::core::{Cx, Scenario, Tier, Violation};
use crate::port::SimStream;
use crate::scen::c15::gen_frame;

pub struct C02;

struct Judge<'a> {
    cx: &'a Cx,
    original: &'a Frame<'static>,
    line: &'a [u8],
    /// also run the stream path for this variant?
    stream_all: bool,
    stream_sample_den: u64,
    counter: u64,
    /// The line of a related valid frame that the receiver decoded just before each damaged line
    /// (a decoder is free to keep state between calls; the property holds whatever came before).
    history: Option<Vec<u8>>,
    /// A valid frame already queued behind the damaged line on the same stream.
    follower: Option<Vec<u8>>,
}

impl Judge<'_> {
    fn check(&mut self, kind: &'static str, pos: usize, damaged: &[u8], force_stream: bool) {
        if self.cx.failed() {
            return;
        }
        self.counter += 1;
        // (a) decode the damaged line directly
        if let Some(h) = &self.history {
            let _ = Frame::from_bytes(h);
        }
        let r = Frame::from_bytes(damaged);
        self.classify(kind, &r);
        if let Ok(f) = &r {
            if f != self.original {
                self.cx.fail(
                    format!("C02/{kind}-decoded-as-different-frame"),
                    format!(
                        "{kind} at {pos}: {:?} damaged to {:?} decodes to a DIFFERENT frame (addr {:#06x} type {} data {:02x?})",
                        String::from_utf8_lossy(self.line),
                        String::from_utf8_lossy(damaged),
                        f.address().0,
                        f.message_type().0,
                        &f.data()[..f.data().len().min(20)]
                    ),
                );
                return;
            }
        }
        // An accepted line must itself be consistent: declared length == data bytes, bytes sum to 0.
        if r.is_ok() {
            if let Some(problem) = inconsistent(damaged) {
                self.cx.fail(
                    format!("C02/{problem}-accepted"),
                    format!("{kind} at {pos}: {:?} was accepted although its {problem}", String::from_utf8_lossy(damaged)),
                );
                return;
            }
        }
        // (b) through the stream reader
        let do_stream = self.stream_all || force_stream || (self.stream_sample_den > 0 && self.counter % self.stream_sample_den == 0);
        if do_stream {
            let mut s = SimStream::new(self.cx, damaged.to_vec());
            s.eintr_den = if self.counter % 8 == 0 { 16 } else { 0 };
            let r2 = Frame::read(&mut s);
            self.cx.probe("variants_through_stream_reader");
            if let Ok(f) = &r2 {
                if f != self.original {
                    self.cx.fail(
                        format!("C02/{kind}-read-as-different-frame"),
                        format!("{kind} at {pos}: stream {:?} was read as a DIFFERENT frame (addr {:#06x} type {})", String::from_utf8_lossy(damaged), f.address().0, f.message_type().0),
                    );
                    return;
                }
                if damaged.contains(&b'\n') && damaged.iter().position(|b| *b == b'\n').unwrap() + 1 < damaged.len() {
                    self.cx.probe("lf_inserted_mid_line");
                }
            }
            // (c) the same read with another valid frame already waiting behind the damaged line: the
            // damaged frame is still to be rejected or recovered, not skipped in favour of the next one
            if let (Some(fo), false) = (&self.follower, damaged.is_empty()) {
                let mut both = damaged.to_vec();
                both.extend_from_slice(fo);
                let mut s = SimStream::new(self.cx, both);
                if let Some(h) = &self.history {
                    let _ = Frame::from_bytes(h);
                }
                let r3 = Frame::read(&mut s);
                self.cx.probe("damaged_line_read_with_a_frame_queued_behind_it");
                if let Ok(f) = &r3 {
                    if f != self.original {
                        self.cx.fail(
                            format!("C02/{kind}-read-as-different-frame"),
                            format!("{kind} at {pos}: stream {:?} followed by a valid frame was read as a DIFFERENT frame (addr {:#06x} type {}): the damaged frame was neither rejected nor recovered", String::from_utf8_lossy(damaged), f.address().0, f.message_type().0),
                        );
                        return;
                    }
                }
            }
        }
    }

    fn classify(&self, kind: &'static str, r: &Result<Frame<'_>, FrameError>) {
        let name = match r {
            Ok(_) => match kind {
                "substitute" => "ok_same_frame_case_change",
                _ => "ok_same_frame_terminator_only",
            },
            Err(FrameError::InvalidFrame { .. }) => "err_invalid",
            Err(FrameError::FrameDataMismatch { .. }) => "err_length",
            Err(FrameError::BadChecksum { .. }) => "err_checksum",
            Err(_) => "err_other",
        };
        self.cx.probe(name);
    }
}

/// A valid frame whose data spells out another complete frame: for some k the payload bytes
/// after k read [length, address, type, data..] with the right length, and the bytes up to k sum
/// to zero, so that the outer checksum is also the inner one. Ordinary traffic can contain such
/// data (a page is arbitrary bytes); a decoder that is not anchored at the start of the line
/// turns ONE substituted character (a ':' in the middle) into a different frame.
fn nested_frame(cx: &Cx) -> Frame<'static> {
    use flipdot_core::{Address, MsgType};
    let inner_data = cx.draw(6) as usize;
    // outer payload: [len, ah, al, ty, d0 .. d(n-1)]; inner frame starts at data index s+1
    let s = cx.draw(4) as usize; // bytes of outer data before the inner frame (last one fixes the sum)
    let n = s + 1 + 4 + inner_data; // fix byte + inner header (len, ah, al, ty) + inner data
    let mut data = cx.bytes(n);
    let addr = crate::gens::address(cx);
    let ty = cx.draw(256) as u8;
    data[s + 1] = inner_data as u8;
    // bytes 0..=k of the payload must sum to 0, where k is the index (in the payload) of data[s]
    let mut sum: u8 = (n as u8).wrapping_add((addr.0 >> 8) as u8).wrapping_add(addr.0 as u8).wrapping_add(ty);
    for b in &data[..s] {
        sum = sum.wrapping_add(*b);
    }
    data[s] = 0u8.wrapping_sub(sum);
    Frame::new(Address(addr.0), MsgType(ty), crate::gens::data(data))
}

/// A valid frame in which, for some k, data byte k equals the checksum of everything before it
/// (declared length included). Cutting the line right after that byte leaves a line whose
/// checksum is right and whose declared length is wrong: only the length check can reject it.
/// Cut points are chosen so that the remaining data count is congruent to the declared one
/// modulo 128, 64, ... as well as arbitrary.
fn prefix_consistent_frame(cx: &Cx) -> Frame<'static> {
    use flipdot_core::{Address, MsgType};
    let len = *cx.pick(&[20usize, 66, 130, 20, 66, 136, 200, 255, 129]);
    // The checksum byte planted at a cut covers either the declared length byte (what is on the
    // wire) or the length the truncated line would really have (what a decoder that rebuilds
    // the frame computes): both kinds of decoder must be covered.
    let over_actual = cx.chance(1, 2);
    let mut data = cx.bytes(len);
    let addr = crate::gens::address(cx);
    let ty = cx.draw(256) as u8;
    let mut cuts: Vec<usize> = vec![cx.draw(len as u64) as usize];
    for m in [128usize, 64, 32, 16] {
        if len > m {
            cuts.push(len - m);
        }
    }
    cuts.sort();
    cuts.dedup();
    for k in cuts {
        let len_byte = if over_actual { k as u8 } else { len as u8 };
        let mut sum: u8 = len_byte.wrapping_add((addr.0 >> 8) as u8).wrapping_add(addr.0 as u8).wrapping_add(ty);
        for b in &data[..k] {
            sum = sum.wrapping_add(*b);
        }
        data[k] = 0u8.wrapping_sub(sum);
    }
    Frame::new(Address(addr.0), MsgType(ty), crate::gens::data(data))
}

/// A short valid frame of L data bytes in which, for some k < L whose two hex digits differ from
/// L's in exactly ONE digit, data byte k equals the checksum of everything before it. One
/// substituted character in the length field then declares k bytes, and the k bytes that follow
/// the header check out against data byte k: only the count of what is really on the line can
/// reject it. Full 16-byte chunks (L = 17 -> 16) are the dominant shape and weighted accordingly.
fn length_neighbour_frame(cx: &Cx) -> Frame<'static> {
    use flipdot_core::{Address, MsgType};
    let len = match cx.draw(8) {
        0..=2 => 17usize,
        3 => 33,
        4 => 18,
        _ => 2 + cx.draw(39) as usize,
    };
    let mut data = cx.bytes(len);
    let addr = crate::gens::address(cx);
    let ty = cx.draw(256) as u8;
    let mut ks: Vec<usize> = Vec::new();
    for d in 0..16usize {
        for k in [(len & 0xF0) | d, (len & 0x0F) | (d << 4)] {
            if k < len {
                ks.push(k);
            }
        }
    }
    ks.sort();
    ks.dedup();
    // one neighbour mostly (16 for 17), sometimes all of them
    let chosen: Vec<usize> = if cx.chance(1, 4) { ks.clone() } else { vec![ks[ks.len() - 1 - cx.draw(ks.len().min(2) as u64) as usize]] };
    for k in chosen {
        let len_byte = if cx.chance(1, 2) { k as u8 } else { len as u8 };
        let mut sum: u8 = len_byte.wrapping_add((addr.0 >> 8) as u8).wrapping_add(addr.0 as u8).wrapping_add(ty);
        for b in &data[..k] {
            sum = sum.wrapping_add(*b);
        }
        data[k] = 0u8.wrapping_sub(sum);
    }
    Frame::new(Address(addr.0), MsgType(ty), crate::gens::data(data))
}

/// Independent look at an accepted line: Some(reason) if its declared length disagrees with its
/// data or its bytes do not sum to zero. Lines of another shape are not judged here.
fn inconsistent(line: &[u8]) -> Option<&'static str> {
    let body = line.strip_suffix(b"\r\n").unwrap_or(line);
    let hex = body.strip_prefix(b":")?;
    if hex.len() % 2 != 0 || hex.len() < 10 {
        return None;
    }
    let val = |c: u8| -> Option<u32> { (c as char).to_digit(16) };
    let mut bytes = Vec::with_capacity(hex.len() / 2);
    for pair in hex.chunks(2) {
        bytes.push((val(pair[0])? * 16 + val(pair[1])?) as u8);
    }
    let declared = bytes[0] as usize;
    let actual = bytes.len() - 5;
    if declared != actual {
        return Some("declared length disagrees with its data");
    }
    if bytes.iter().fold(0u8, |a, b| a.wrapping_add(*b)) != 0 {
        return Some("checksum does not match");
    }
    None
}

impl Scenario for C02 {
    fn name(&self) -> &'static str {
        "c02-wire-damage"
    }
    fn property(&self) -> &'static str {
        "C02"
    }
    fn runs(&self, tier: Tier) -> u64 {
        match tier {
            Tier::Quick => 480,
            Tier::Thorough => 24_000,
        }
    }
    fn describe(&self) -> &'static str {
        "sender Frame::write / to_bytes -> line with exactly one injected fault (every substitution, deletion, duplication, adjacent swap, truncation enumerated) -> receiver Frame::from_bytes and Frame::read"
    }
    fn run(&self, cx: &Cx) -> Result<(), Violation> {
        // Mostly short frames (cheap, complete stream path); some of maximal length.
        let mut both_forms = false;
        let mut history: Option<Vec<u8>> = None;
        let f = if cx.chance(1, 10) {
            // F = a frame G that the receiver decoded just before, extended by one data byte equal to G's
            // checksum: one substituted length digit makes F's line "G's line and two more characters"
            cx.probe("frame_extending_the_frame_decoded_just_before");
            let mut g = gen_frame(cx);
            let mut guard = 0;
            while g.data().len() > 24 && guard < 8 {
                g = gen_frame(cx);
                guard += 1;
            }
            let gl = g.to_bytes();
            let cks = std::str::from_utf8(&gl[gl.len() - 2..]).ok().and_then(|t| u8::from_str_radix(t, 16).ok()).unwrap_or(0);
            let mut d = g.data().to_vec();
            if d.len() < 255 {
                d.push(cks);
            }
            history = Some(g.to_bytes_with_newline());
            both_forms = true;
            flipdot_core::Frame::new(g.address(), g.message_type(), crate::gens::data(d))
        } else if cx.chance(1, 6) {
            cx.probe("frame_embedding_another_frame");
            nested_frame(cx)
        } else if cx.chance(1, 8) {
            cx.probe("frame_with_checksum_consistent_prefix");
            prefix_consistent_frame(cx)
        } else if cx.chance(1, 6) {
            cx.probe("frame_with_consistent_length_neighbour");
            both_forms = true;
            length_neighbour_frame(cx)
        } else if cx.chance(1, 16) {
            // the heaviest frames there are: (almost) every field at its maximum, so that sums kept in
            // wider integers reach their limits (255 data bytes of 0xFF, address and type near 0xFFFF / 0xFF)
            cx.probe("frame_with_maximal_field_sum");
            let len = *cx.pick(&[255usize, 255, 254]);
            let mut d = vec![0xFFu8; len];
            for _ in 0..cx.draw(3) {
                let k = cx.draw(len as u64) as usize;
                d[k] = 0xFF - cx.draw(3) as u8;
            }
            let a = *cx.pick(&[0xFFFFu16, 0xFFFE, 0xFEFF, 0xFFFF]);
            let ty = *cx.pick(&[0xFFu8, 0x01, 0xFE, 0x80]);
            flipdot_core::Frame::new(flipdot_core::Address(a), flipdot_core::MsgType(ty), crate::gens::data(d))
        } else if cx.chance(1, 24) {
            let len = *cx.pick(&[255usize, 254, 128]);
            flipdot_core::Frame::new(crate::gens::address(cx), flipdot_core::MsgType(cx.draw(256) as u8), crate::gens::data(cx.bytes(len)))
        } else {
            let mut f = gen_frame(cx);
            let mut guard = 0;
            while f.data().len() > 24 && guard < 8 {
                f = gen_frame(cx);
                guard += 1;
            }
            f
        };
        if history.is_none() && f.data().len() <= 40 && cx.chance(1, 4) {
            // the receiver decoded a related valid frame just before every damaged line: the frame itself,
            // the frame without its last data byte, or with one more
            cx.probe("related_frame_decoded_before_every_damaged_line");
            let mut d = f.data().to_vec();
            match cx.draw(3) {
                0 => {}
                1 => {
                    d.pop();
                }
                _ => d.push(cx.draw(256) as u8),
            }
            let g = flipdot_core::Frame::new(f.address(), f.message_type(), crate::gens::data(d));
            history = Some(if cx.chance(1, 2) { g.to_bytes_with_newline() } else { g.to_bytes() });
        }
        // a valid frame queued behind the damaged line (short frames only: the stream path is complete there)
        let follower: Option<Vec<u8>> = if f.data().len() <= 24 && cx.chance(1, 3) {
            let g = gen_frame(cx);
            if g != f && g.data().len() <= 24 { Some(g.to_bytes_with_newline()) } else { None }
        } else {
            None
        };
        // the terminator is optional: three lines in four carry it (half of the crafted short ones)
        let with_newline = if f.data().len() <= 40 && cx.chance(1, 3) { cx.chance(1, 2) } else { cx.chance(3, 4) };
        // the short crafted frames are judged in both forms, one after the other
        let forms: Vec<bool> = if both_forms { vec![with_newline, !with_newline] } else { vec![with_newline] };
        for with_newline in forms {
        let line: Vec<u8> = if with_newline {
            // through the real writer
            let mut s = SimStream::new(cx, vec![]);
            s.short_writes = true;
            if f.write(&mut s).is_err() || s.sink != f.to_bytes_with_newline() {
                // the writer did not deliver the encoding: C15's business, no verdict here
                cx.discard("write-failed");
                return cx.verdict();
            }
            s.sink
        } else {
            f.to_bytes()
        };
        cx.event("frame", &(f.address().0, f.message_type().0, f.data().len(), with_newline));
        cx.note(|| format!("frame line: {:?}", String::from_utf8_lossy(&line)));
        cx.set_nontrivial();
        let n = line.len();
        let long = n > 80;
        let mut j = Judge { cx, original: &f, line: &line, stream_all: !long, stream_sample_den: if long { 16 } else { 0 }, counter: 0, history: history.clone(), follower: follower.clone() };
        let mut buf: Vec<u8> = Vec::with_capacity(n + 1);
        // substitutions
        for p in 0..n {
            for b in 0..=255u8 {
                if b == line[p] {
                    continue;
                }
                buf.clear();
                buf.extend_from_slice(&line);
                buf[p] = b;
                j.check("substitute", p, &buf, false);
            }
        }
        // deletions
        for p in 0..n {
            buf.clear();
            buf.extend_from_slice(&line[..p]);
            buf.extend_from_slice(&line[p + 1..]);
            j.check("delete", p, &buf, true);
        }
        // duplications
        for p in 0..n {
            buf.clear();
            buf.extend_from_slice(&line[..=p]);
            buf.extend_from_slice(&line[p..]);
            j.check("duplicate", p, &buf, true);
        }
        // adjacent swaps of unequal characters
        for p in 0..n.saturating_sub(1) {
            if line[p] == line[p + 1] {
                continue;
            }
            buf.clear();
            buf.extend_from_slice(&line);
            buf.swap(p, p + 1);
            j.check("swap", p, &buf, true);
        }
        // proper prefixes
        for p in 0..n {
            j.check("truncate", p, &line[..p], true);
        }
        let total = j.counter;
        cx.probe_n("damaged_variants_decoded", total);
        cx.verdict()?;
        // The property's second sentence, directly: lines of the right shape whose declared length
        // disagrees with their data (by 1, by 128, by 256, ...) or whose checksum is any of the 255
        // wrong values are never accepted -- whichever way the checksum was computed.
        let data: Vec<u8> = f.data().to_vec();
        let addr = f.address().0;
        let ty = f.message_type().0;
        let encode = |declared: u8, body: &[u8], over_declared: bool, checksum_delta: u8| -> Vec<u8> {
            let len_for_sum = if over_declared { declared } else { body.len() as u8 };
            let mut sum: u8 = len_for_sum.wrapping_add((addr >> 8) as u8).wrapping_add(addr as u8).wrapping_add(ty);
            for b in body {
                sum = sum.wrapping_add(*b);
            }
            let ck = 0u8.wrapping_sub(sum).wrapping_add(checksum_delta);
            let mut out = format!(":{:02X}{:04X}{:02X}", declared, addr, ty).into_bytes();
            for b in body {
                out.extend(format!("{:02X}", b).into_bytes());
            }
            out.extend(format!("{:02X}", ck).into_bytes());
            if with_newline {
                out.extend_from_slice(b"\r\n");
            }
            out
        };
        let l = data.len();
        let mut bodies: Vec<Vec<u8>> = vec![data.clone()];
        for extra in [1usize, 128, 256, 512] {
            let mut b = data.clone();
            b.extend(cx.bytes(extra));
            bodies.push(b);
            // ... and the same with extra bytes that are all zero (the checksum does not move)
            let mut z = data.clone();
            z.extend(std::iter::repeat(0u8).take(extra));
            bodies.push(z);
        }
        if l >= 1 {
            bodies.push(data[..l - 1].to_vec());
        }
        if l >= 128 {
            bodies.push(data[..l - 128].to_vec());
        }
        for body in &bodies {
            for declared in [l as u8, (l as u8).wrapping_add(1), (l as u8).wrapping_sub(1), (l as u8) ^ 0x80, 0, 255, body.len() as u8, cx.draw(256) as u8] {
                if usize::from(declared) == body.len() {
                    continue; // consistent (or not representable): not this check's subject
                }
                for over_declared in [true, false] {
                    let line = encode(declared, body, over_declared, 0);
                    cx.probe("length_mismatch_lines");
                    let accepted = Frame::from_bytes(&line).is_ok() || {
                        let mut s = SimStream::new(cx, line.clone());
                        Frame::read(&mut s).is_ok()
                    };
                    if accepted {
                        cx.fail(
                            "C02/length-mismatch-accepted",
                            format!("a line declaring {declared} data bytes but carrying {} was accepted (checksum computed over the {} length): {:?}", body.len(), if over_declared { "declared" } else { "actual" }, String::from_utf8_lossy(&line[..line.len().min(60)])),
                        );
                        return cx.verdict();
                    }
                }
            }
        }
        for delta in 1..=255u8 {
            let line = encode(l as u8, &data, true, delta);
            cx.probe("bad_checksum_lines");
            if Frame::from_bytes(&line).is_ok() {
                cx.fail("C02/bad-checksum-accepted", format!("checksum off by {delta} accepted: {:?}", String::from_utf8_lossy(&line[..line.len().min(60)])));
                return cx.verdict();
            }
        }
        }
        cx.verdict()
    }
}
