//! Scenario registry.

use crate::core::Scenario;

pub mod c02;
pub mod c08;
pub mod c09;
pub mod c10;
pub mod c14;
pub mod c15;
pub mod c17;
pub mod serial;
pub mod signnode;

pub fn all() -> Vec<Box<dyn Scenario>> {
    vec![
        Box::new(signnode::SignNode { mode: signnode::Mode::NoPanic }),
        Box::new(signnode::Flood),
        Box::new(signnode::SignNode { mode: signnode::Mode::Refinement }),
        Box::new(signnode::ManyPages { mode: signnode::Mode::NoPanic }),
        Box::new(signnode::EmptyBus),
        Box::new(signnode::ManyPages { mode: signnode::Mode::Refinement }),
        Box::new(c08::C08),
        Box::new(c09::C09Real),
        Box::new(c09::C09Stub),
        Box::new(c10::Adversary { judge: c10::Judge::Model }),
        Box::new(c10::Adversary { judge: c10::Judge::Invariants }),
        Box::new(c02::C02),
        Box::new(c14::C14),
        Box::new(c15::C15Read),
        Box::new(c15::C15Write),
        Box::new(c15::C15Compositions),
        Box::new(serial::C16),
        Box::new(c17::C17Twin),
        Box::new(c17::C17Bridge),
        Box::new(serial::C18),
        Box::new(serial::C20),
    ]
}

/// Probes / fault kinds a scenario is expected to hit in every batch; a zero is printed as a warning.
pub fn expected_probes(name: &str) -> Vec<&'static str> {
    match name {
        "c12-signnode" | "c13-signnode" => vec![
            "bus_with_8_or_more_signs",
            "bus_with_more_than_32_signs",
            "config_block_with_trailing_bytes",
            "all_signs_receiving_at_once",
            "lose_request",
            "lose_reply",
            "duplicate",
            "reorder",
            "short_chunk",
            "long_chunk",
            "bad_offset",
            "bad_count",
            "bad_config",
            "foreign_reply",
            "bus_error",
            "foreign_traffic",
            "crash",
            "count_below",
            "count_above",
            "count_with_short_page_buffered",
            "offset0_with_partial_pending",
            "config_width_sum_gt_255",
            "config_height_0",
            "config_family_other",
            "flush_in_non_receiving_state",
            "multi_page_reassembly",
            "count_match_with_wrong_size_page",
            "abandoned_transfer_then_reset",
        ],
        "c12-flood" => vec!["counter_taken_past_65535", "pending_buffer_grown_past_64k", "more_than_65536_pages_in_one_transfer"],
        "c12-many-pages" | "c13-many-pages" => vec!["more_than_256_pages_in_one_transfer"],
        "c17-twin" => vec!["long_session_on_one_serial_bus", "task_switches", "op_succeeded_both_ways", "op_failed_both_ways", "reconfigure_as_other_type", "two_frames_in_line_together", "simulated_read_timeouts", "eintr", "short_write"],
        "c17-bridge" => vec!["frame_line_with_a_sign_character_for_a_leading_zero", "unknown_frame_one_byte_command_with_trailing_bytes", "frame_line_with_a_prefix_at_the_bridge", "transfer_of_more_than_64k_through_the_bridge", "undecodable_line_at_bridge", "frame_line_with_a_non_hex_character", "bridge_wrote_reply", "bridge_silent_no_reply", "eintr", "short_write"],
        "c14-shared-bus" => vec!["sign_that_joined_the_bus_with_a_history", "transfer_of_30_to_70_pages", "bus_with_8_or_more_signs", "two_signs_in_PixelsInProgress", "chunk_absorbed_by_two_signs", "absent_address", "reply_from_sign_index_ge_1", "task_switches"],
        "c02-wire-damage" => vec!["frame_extending_the_frame_decoded_just_before", "related_frame_decoded_before_every_damaged_line", "damaged_line_read_with_a_frame_queued_behind_it", "ok_same_frame_case_change", "ok_same_frame_terminator_only", "err_invalid", "err_length", "err_checksum", "variants_through_stream_reader", "lf_inserted_mid_line", "frame_with_consistent_length_neighbour", "frame_with_maximal_field_sum"],
        "c15-read" => vec!["frame_line_with_a_text_prefix", "line_of_plain_text", "hard_error_with_os_code", "eintr", "eof", "io_error", "eintr_mid_line", "line_without_lf_at_eof", "line_ending_in_cr_at_eof", "frame_text_with_near_miss_line_ending", "line_length_disagrees_with_its_length_field", "error_at_first_call", "error_at_last_call", "hard_error_placements", "eintr_placements"],
        "c15-write" => vec!["hard_error_with_os_code", "eintr", "short_write", "io_error", "write_zero", "short_write_1_byte", "hard_error_placements", "write_zero_placements", "eintr_placements", "one_byte_write_placements"],
        "c15-compositions" => vec!["compositions_enumerated"],
        "c16-serial-exchange" => vec!["data_chunk_with_borrowed_payload", "eintr", "short_write", "io_error", "timeout", "eof", "write_zero", "unknown_that_looks_like_hello", "fault_at_each_op_index", "long_conversation_with_failing_replies", "reply_with_a_non_hex_character"],
        "c20-port-setup" => vec!["port_of_two_halves_configured", "prior_framing_value_unreported", "transient_refusal", "configured_twice", "prior_speed_unreported"],
        "c18-pacing" => vec!["caller_thread_holds_an_unpark_token", "chunk_followed_by_paced_write", "in_progress_report_paced", "bus_recreated_on_same_port", "long_run_of_in_progress_reports", "long_run_of_successful_transfer_reports", "noise_line_before_the_reply", "payload_of_one_repeated_byte"],
        "c10-adversarial-bus" => vec!["bus_error", "bus_error_with_os_code", "near_miss_frame_as_reply", "foreign_address_equal_to_a_number_of_the_conversation", "caller_keeps_no_handle_on_the_bus", "conversation_ge_10_turns", "polled_3_or_more_times", "foreign_reply_at:Hello1", "foreign_reply_at:ResultQuery", "foreign_reply_at:Poll", "foreign_reply_at:RequestAck", "foreign_reply_at:CinHello", "foreign_reply_at:FinalQuery"],
        "c11-adversarial-bus" => vec![
            "caller_keeps_no_handle_on_the_bus",
            "bus_error",
            "conversation_ge_10_turns",
            "retry_seen",
            "third_attempt_failed",
            "error_mid_conversation",
            "disallowed_reply_with_foreign_address",
            "configure_if_needed_stopped_early",
            "foreign_reply_at:Hello1",
            "foreign_reply_at:ResultQuery",
            "foreign_reply_at:Poll",
            "foreign_reply_at:RequestAck",
            "foreign_reply_at:CinHello",
            "foreign_reply_at:FinalQuery",
        ],
        "c08-recover-and-send" => vec![
            "page_from_sign_create_page",
            "prior_state:Unconfigured",
            "prior_state:ConfigInProgress",
            "prior_state:ConfigReceived",
            "prior_state:ConfigFailed",
            "prior_state:PixelsInProgress",
            "prior_state:PixelsReceived",
            "prior_state:PixelsFailed",
            "prior_state:PageLoaded",
            "prior_state:PageLoadInProgress",
            "prior_state:PageShown",
            "prior_state:PageShowInProgress",
            "prior_state:ShowingPages",
            "prior_state:ReadyToReset",
            "prior_pending_nonempty",
            "prior_type_different",
            "prior_type_unknown_custom_config",
            "crash_mid_reset",
            "crash_between_chunks",
            "configure_if_needed_trusted",
            "configure_if_needed_judged",
            "shut_down_then_again",
            "pages_sent:0",
            "pages_sent:4",
        ],
        "c09-real-sign" => vec!["retry_attempt_checked", "three_attempts", "multi_page", "zero_pages", "lost_chunk", "short_chunk", "long_chunk", "bad_count", "bad_offset"],
        "c09-stub-replier" => vec!["page_list_of_10_to_100_pages", "sign_that_keeps_reporting_failure", "retry_attempt_checked", "three_attempts", "multi_page", "zero_pages", "page_size_differs_from_sign", "stub_reports_failed"],
        _ => vec![],
    }
}
