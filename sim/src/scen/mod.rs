//! Scenario registry.

use crate::core::Scenario;

pub mod signnode;

pub fn all() -> Vec<Box<dyn Scenario>> {
    vec![
        Box::new(signnode::SignNode { mode: signnode::Mode::NoPanic }),
        Box::new(signnode::Flood),
        Box::new(signnode::SignNode { mode: signnode::Mode::Refinement }),
    ]
}

/// Probes / fault kinds a scenario is expected to hit in every batch; a zero is printed as a warning.
pub fn expected_probes(name: &str) -> Vec<&'static str> {
    match name {
        "c12-signnode" | "c13-signnode" => vec![
            "lose_request",
            "lose_reply",
            "duplicate",
            "reorder",
            "short_chunk",
            "long_chunk",
            "bad_offset",
            "bad_count",
            "bad_config",
            "foreign_reply",
            "bus_error",
            "foreign_traffic",
            "crash",
            "count_below",
            "count_above",
            "count_with_short_page_buffered",
            "offset0_with_partial_pending",
            "config_width_sum_gt_255",
            "config_height_0",
            "config_family_other",
            "flush_in_non_receiving_state",
            "multi_page_reassembly",
            "count_match_with_wrong_size_page",
            "abandoned_transfer_then_reset",
        ],
        "c12-flood" => vec!["counter_taken_past_65535"],
        _ => vec![],
    }
}
