//! C09: controller data transfers are complete, ordered, correctly offset and counted —
//! checked over the recorded message history of each configure / send_pages call.

use std::cell::RefCell;
use std::rc::Rc;

use flipdot::Sign;
use flipdot_core::{Address, Message, Operation, Page, PageId, SignBus, SignType, State};

use crate::bus::{take_history, BusResult, Exchange, FaultCfg, FaultyBus, OnPanic, RecordingBus, Reply, World};
use crate::core::{Cx, Scenario, Tier, Violation};
use crate::gens::{self, show};
use crate::ops::{self, Op, Outcome};

pub struct C09Real;
pub struct C09Stub;

/// Checks one call's history. `items` are the byte strings the caller handed over.
pub fn check_history(addr: Address, op: Operation, items: &[Vec<u8>], history: &[Exchange], call_ok: bool) -> Result<u32, (String, String)> {
    // What the documented protocol must put on the wire for one attempt.
    let mut expected: Vec<(u16, &[u8])> = Vec::new();
    for item in items {
        let mut off = 0usize;
        while off < item.len() {
            let end = (off + 16).min(item.len());
            expected.push((off as u16, &item[off..end]));
            off = end;
        }
    }
    #[derive(PartialEq)]
    enum Pos {
        Outside,
        Chunks { acked: bool, n: usize },
        Counted,
    }
    let mut pos = Pos::Outside;
    let mut attempts = 0u32;
    let mut complete_attempts = 0u32;
    for (i, e) in history.iter().enumerate() {
        let bad = |class: &str, what: String| Err((class.to_string(), format!("message #{i} {}: {what}", show(&e.sent))));
        match &e.sent {
            Message::RequestOperation(a, o) if *o == op => {
                if *a != addr {
                    return bad("foreign-address", format!("request carries {:#06x}, controller is {:#06x}", a.0, addr.0));
                }
                if matches!(pos, Pos::Chunks { .. } | Pos::Counted) {
                    return bad("restart-before-result", "a new transfer request was sent before the previous attempt was concluded by a state query".into());
                }
                attempts += 1;
                let acked = matches!(&e.reply, Reply::Msg(Some(Message::AckOperation(ra, ro))) if *ra == addr && *ro == op);
                pos = Pos::Chunks { acked, n: 0 };
            }
            Message::SendData(off, d) => match &mut pos {
                Pos::Chunks { acked, n } => {
                    if !*acked {
                        return bad("data-before-ack", "a data chunk was sent although the receive request had not been acknowledged".into());
                    }
                    let Some((want_off, want)) = expected.get(*n) else {
                        return bad("extra-chunk", format!("chunk #{} sent but the items only make {} chunks", *n, expected.len()));
                    };
                    if d.get().len() > 16 {
                        return bad("chunk-too-long", format!("{} bytes", d.get().len()));
                    }
                    if off.0 != *want_off {
                        return bad("wrong-offset", format!("chunk #{} has offset {:#06x}, wanted {:#06x}", *n, off.0, want_off));
                    }
                    if &d.get()[..] != *want {
                        return bad("wrong-chunk-bytes", format!("chunk #{} carries {:02x?}, wanted {:02x?}", *n, &d.get()[..], want));
                    }
                    *n += 1;
                }
                _ => return bad("data-outside-transfer", "a data chunk was sent outside an acknowledged transfer".into()),
            },
            Message::DataChunksSent(c) => match &pos {
                Pos::Chunks { acked, n } => {
                    if !*acked {
                        return bad("count-before-ack", "chunk count announced although the request had not been acknowledged".into());
                    }
                    if *n != expected.len() {
                        return bad("count-before-all-chunks", format!("count announced after {} of {} chunks", n, expected.len()));
                    }
                    if usize::from(c.0) != *n {
                        return bad("wrong-count", format!("announced {} but {} chunks were sent since the request", c.0, n));
                    }
                    pos = Pos::Counted;
                    complete_attempts += 1;
                }
                _ => return bad("count-outside-transfer", "chunk count announced outside a transfer".into()),
            },
            Message::QueryState(_) => match pos {
                Pos::Chunks { .. } => return bad("query-before-count", "the result was asked for before the chunk count was announced".into()),
                Pos::Counted => pos = Pos::Outside,
                Pos::Outside => {}
            },
            _ => {}
        }
    }
    if call_ok {
        if complete_attempts == 0 {
            return Err(("ok-without-transfer".into(), "the call returned Ok without one complete transfer".into()));
        }
        if pos != Pos::Outside {
            return Err(("ok-with-open-transfer".into(), "the call returned Ok while a transfer attempt was still open".into()));
        }
    }
    Ok(attempts)
}

fn run_call(cx: &Cx, sign: &Sign, history: &crate::bus::History, addr: Address, t: SignType, op: &Op) -> Result<(), Violation> {
    let _ = take_history(history);
    let out = ops::apply(sign, op);
    let h = take_history(history);
    cx.event("call", &(op.code(), &out, h.len()));
    cx.note(|| format!("{} -> {out:?} ({} messages)", op.name(), h.len()));
    let (operation, items): (Operation, Vec<Vec<u8>>) = match op {
        Op::Configure | Op::ConfigureIfNeeded => (Operation::ReceiveConfig, vec![t.to_bytes().to_vec()]),
        Op::SendPages(p) => (Operation::ReceivePixels, p.iter().map(|p| p.as_bytes().to_vec()).collect()),
        _ => return Ok(()),
    };
    // configure_if_needed may legitimately send nothing at all.
    let transfer_expected = match op {
        Op::ConfigureIfNeeded => h.iter().any(|e| matches!(e.sent, Message::RequestOperation(_, Operation::ReceiveConfig))),
        _ => true,
    };
    match check_history(addr, operation, &items, &h, out.is_ok() && transfer_expected) {
        Ok(attempts) => {
            if attempts >= 2 {
                cx.probe("retry_attempt_checked");
            }
            if attempts >= 3 {
                cx.probe("three_attempts");
            }
            if let Op::SendPages(p) = op {
                if p.len() >= 2 {
                    cx.probe("multi_page");
                }
                if p.is_empty() {
                    cx.probe("zero_pages");
                }
            }
            Ok(())
        }
        Err((class, detail)) => {
            if cx.tracing() {
                for (i, e) in h.iter().enumerate().take(80) {
                    cx.note(|| format!("   #{i} {} => {:?}", show(&e.sent), e.reply));
                }
            }
            cx.fail(format!("C09/{class}"), format!("{}: {detail}", op.name()));
            cx.verdict()
        }
    }
}

impl Scenario for C09Real {
    fn name(&self) -> &'static str {
        "c09-real-sign"
    }
    fn property(&self) -> &'static str {
        "C09"
    }
    fn runs(&self, tier: Tier) -> u64 {
        match tier {
            Tier::Quick => 150_000,
            Tier::Thorough => 10_000_000,
        }
    }
    fn describe(&self) -> &'static str {
        "real Sign -> RecordingBus -> FaultyBus (chunk-level faults only: lost/short/long chunk, damaged offset/count/config) -> real VirtualSignBus, so that the real sign reports failures and the real controller retries; history of every configure/send_pages call checked"
    }
    fn run(&self, cx: &Cx) -> Result<(), Violation> {
        let addr = gens::address(cx);
        let world = World::new(cx, "C09", OnPanic::Discard, &[(addr, gens::flip_style(cx))], false);
        let cfg = FaultCfg::swarm(cx, &["lose_request", "short_chunk", "long_chunk", "bad_offset", "bad_count", "bad_config", "duplicate", "bus_error", "lose_reply", "foreign_reply"]);
        let fb = FaultyBus::new(world.clone(), cx, cfg);
        let (rec, history) = RecordingBus::new(fb);
        let bus = Rc::new(RefCell::new(rec));
        let t = gens::sign_type(cx);
        let sign = Sign::new(bus, addr, t);
        let nops = 1 + cx.draw(6);
        cx.set_nontrivial();
        // Start with a configure most of the time so that transfers get going.
        if cx.chance(7, 8) {
            run_call(cx, &sign, &history, addr, t, &Op::Configure)?;
        }
        for _ in 0..nops {
            if world.lock().dead {
                break;
            }
            let op = match cx.draw(4) {
                0 | 1 => Op::SendPages(gens::pages(cx, t, 3)),
                2 => Op::Configure,
                _ => ops::gen_op(cx, t, 3),
            };
            run_call(cx, &sign, &history, addr, t, &op)?;
        }
        cx.verdict()
    }
}

/// A sign that acknowledges everything and reports what the tape says after each count.
struct StubSign {
    /// the exchange with this index (counted per call) fails with a bus error / stray reply
    abort_at: Option<u64>,
    seen: u64,
    cx: Cx,
    addr: Address,
    after_count: bool,
    fails_left: u64,
    automatic: bool,
    in_config: bool,
}

impl SignBus for StubSign {
    fn process_message<'a>(&mut self, message: Message<'_>) -> BusResult<'a> {
        let idx = self.seen;
        self.seen += 1;
        if self.abort_at == Some(idx) {
            self.cx.fault("stub_aborts_call");
            if self.cx.chance(1, 2) {
                return Err(crate::bus::bus_error(&self.cx, "stub transport failure"));
            }
            return Ok(Some(Message::ReportState(self.addr, State::ReadyToReset)));
        }
        let r = match message {
            Message::Hello(a) => Some(Message::ReportState(a, State::Unconfigured)),
            Message::RequestOperation(a, op) => {
                self.in_config = op == Operation::ReceiveConfig;
                self.after_count = false;
                Some(Message::AckOperation(a, op))
            }
            Message::DataChunksSent(_) => {
                self.after_count = true;
                None
            }
            Message::QueryState(a) => {
                if self.after_count {
                    self.after_count = false;
                    let failed = self.fails_left > 0;
                    if failed {
                        self.fails_left -= 1;
                        self.cx.fault("stub_reports_failed");
                    }
                    let st = match (self.in_config, failed) {
                        (true, false) => State::ConfigReceived,
                        (true, true) => State::ConfigFailed,
                        (false, false) => State::PixelsReceived,
                        (false, true) => State::PixelsFailed,
                    };
                    Some(Message::ReportState(a, st))
                } else if self.automatic {
                    Some(Message::ReportState(a, State::ShowingPages))
                } else {
                    Some(Message::ReportState(a, State::PageLoaded))
                }
            }
            _ => None,
        };
        let _ = self.addr;
        Ok(r)
    }
}

impl Scenario for C09Stub {
    fn name(&self) -> &'static str {
        "c09-stub-replier"
    }
    fn property(&self) -> &'static str {
        "C09"
    }
    fn runs(&self, tier: Tier) -> u64 {
        match tier {
            Tier::Quick => 40_000,
            Tier::Thorough => 3_000_000,
        }
    }
    fn describe(&self) -> &'static str {
        "real Sign -> RecordingBus -> stub replier that acknowledges every request and answers the concluding query from the tape (0-3 failure reports): pages of arbitrary sizes (different from the sign's own, 0 pages, many pages, one item of exactly 65536 bytes reaching offset 0xFFF0)"
    }
    fn run(&self, cx: &Cx) -> Result<(), Violation> {
        let addr = gens::address(cx);
        let t = gens::any_sign_type(cx);
        let stub = StubSign { abort_at: None, seen: 0, cx: cx.clone(), addr, after_count: false, fails_left: 0, automatic: cx.draw(2) == 1, in_config: false };
        let (rec, history) = RecordingBus::new(stub);
        let bus = Rc::new(RefCell::new(rec));
        let sign = Sign::new(bus.clone(), addr, t);
        cx.set_nontrivial();
        // now and then a sign that keeps reporting failure, call after call, on one Sign object
        let stubborn = cx.chance(1, 16);
        if stubborn {
            cx.probe("sign_that_keeps_reporting_failure");
        }
        let ncalls = if stubborn { 3 + cx.draw(4) } else { 1 + cx.draw(3) };
        for _ in 0..ncalls {
            {
                let mut b = bus.borrow_mut();
                b.inner.fails_left = if stubborn && cx.chance(5, 6) { 3 } else { *cx.pick(&[0u64, 1, 2, 3, 0]) };
                // sometimes the call is cut in the middle (bus error or stray reply); the next
                // call on the same Sign object must still transfer correctly
                b.inner.seen = 0;
                b.inner.abort_at = if cx.chance(1, 4) { Some(cx.draw(24)) } else { None };
            }
            let op = if cx.chance(1, 4) {
                Op::Configure
            } else {
                // Pages of arbitrary dimensions, unrelated to the sign's own.
                let huge = cx.chance(1, 150);
                let many = !huge && cx.chance(1, 120);
                if many {
                    cx.probe("more_than_256_pages_in_one_list");
                }
                // list lengths: small mostly; now and then any length up to 100 (a threshold in the middle
                // of the range is as likely as one at its ends)
                let medium = !huge && !many && cx.chance(1, 12);
                if medium {
                    cx.probe("page_list_of_10_to_100_pages");
                }
                let n = if huge { 1 + cx.draw(2) } else if many { 257 + cx.draw(400) } else if medium { 10 + cx.draw(91) } else { *cx.pick(&[1u64, 0, 2, 3, 5, 9]) };
                let mut pages: Vec<Page<'static>> = Vec::new();
                for k in 0..n {
                    let (w, h) = if huge && k == 0 {
                        cx.probe("offset_reaches_0xFFF0");
                        (16383u32, 32u32)
                    } else if many || medium {
                        (12u32, 8u32)
                    } else if k > 0 && cx.chance(1, 6) {
                        // the same page again, byte for byte
                        let last: Page<'static> = pages.last().unwrap().clone();
                        pages.push(last);
                        continue;
                    } else {
                        match cx.draw(4) {
                            0 => t.dimensions(),
                            1 => (*cx.pick(&[12u32, 1, 0, 28, 44, 300]), *cx.pick(&[8u32, 1, 7, 9, 16, 0, 33])),
                            2 => gens::any_sign_type(cx).dimensions(),
                            _ => (cx.draw(200) as u32, 1 + cx.draw(40) as u32),
                        }
                    };
                    if (w, h) != t.dimensions() {
                        cx.probe("page_size_differs_from_sign");
                    }
                    let mut p = Page::new(PageId(cx.draw(256) as u8), w, h);
                    if w > 0 && h > 0 {
                        if huge {
                            p.set_all_pixels(cx.draw(2) == 1);
                        }
                        let k = cx.draw(12);
                        for _ in 0..k {
                            p.set_pixel(cx.draw(u64::from(w)) as u32, cx.draw(u64::from(h)) as u32, true);
                        }
                    }
                    pages.push(p);
                }
                Op::SendPages(pages)
            };
            run_call(cx, &sign, &history, addr, t, &op)?;
        }
        cx.verdict()
    }
}
