//! C17: the serial transport is transparent.
//!
//! c17-twin: node A (real Sign -> real SerialSignBus -> simulated port) and node B (real Odk <-
//! simulated port, driving the real VirtualSignBus) are the two ends of a simulated full-duplex
//! line; each runs on its own scheduler-controlled thread. A twin executes the same operations
//! directly on an identical VirtualSignBus; success and sign state must match after every
//! operation.
//! c17-bridge: lines are fed straight into the bridge's port; per line the bridge must forward
//! exactly the decoded frame, write back exactly the reply (if any), and report an undecodable
//! line as a communication error without touching the bus.

use std::cell::RefCell;
use std::rc::Rc;
use std::sync::{Arc, Mutex};
use std::time::Duration;

use flipdot::Sign;
use flipdot_core::{Address, Frame, Message, PageFlipStyle, SignType};
use flipdot_serial::verif_hooks::{set_sleep, SleepFn};
use flipdot_serial::SerialSignBus;
use flipdot_testing::{Odk, OdkError};

use crate::bus::{take_history, DirectBus, OnPanic, RecordingBus, Reply, SharedWorld, World};
use crate::core::{Cx, Scenario, Tier, Violation};
use crate::gens::{self, show};
use crate::ops::{self, Op};
use crate::port::{Device, PipeWire, ScriptWire, SimClock, SimPort, Wire};
use crate::scen::signnode::aware_message;
use crate::sched::Sched;

pub struct C17Twin;
pub struct C17Bridge;

fn compare_worlds(cx: &Cx, a: &SharedWorld, b: &SharedWorld, when: &str) {
    let wa = a.lock();
    let wb = b.lock();
    for i in 0..wa.n() {
        let (sa, sb) = (wa.sign(i), wb.sign(i));
        if sa.state() != sb.state() || sa.sign_type() != sb.sign_type() {
            cx.fail(
                "C17/state-diverged",
                format!(
                    "{when}: sign {:#06x} is {:?}/{:?} behind the serial path and {:?}/{:?} when driven directly",
                    wa.addrs[i].0,
                    sa.state(),
                    sa.sign_type(),
                    sb.state(),
                    sb.sign_type()
                ),
            );
            return;
        }
        let same = sa.pages().len() == sb.pages().len() && sa.pages().iter().zip(sb.pages().iter()).all(|(p, q)| p == q);
        if !same {
            cx.fail(
                "C17/pages-diverged",
                format!("{when}: sign {:#06x} holds {} page(s) behind the serial path and {} when driven directly (or their bytes differ)", wa.addrs[i].0, sa.pages().len(), sb.pages().len()),
            );
            return;
        }
    }
}

impl Scenario for C17Twin {
    fn name(&self) -> &'static str {
        "c17-twin"
    }
    fn property(&self) -> &'static str {
        "C17"
    }
    fn runs(&self, tier: Tier) -> u64 {
        match tier {
            Tier::Quick => 30_000,
            Tier::Thorough => 2_000_000,
        }
    }
    fn describe(&self) -> &'static str {
        "two nodes on scheduler-controlled threads joined by a simulated full-duplex serial line: real Sign -> real SerialSignBus -> port A | port B -> real Odk -> real VirtualSignBus; fragmentation, EINTR, short writes, pipelining and who-runs-next drawn from the tape; port timeouts and pacing on the simulated clock; a twin runs the same operations directly on an identical bus; 1-6 operations per run, one run in 48 a long session of 40-70 operations (hundreds of messages) on one bus object"
    }
    fn run(&self, cx: &Cx) -> Result<(), Violation> {
        let nsigns = 1 + cx.draw(2) as usize;
        let addrs = gens::distinct_addresses(cx, nsigns);
        let signs: Vec<(Address, PageFlipStyle)> = addrs.iter().map(|a| (*a, gens::flip_style(cx))).collect();
        let serial_world = World::new(cx, "C17", OnPanic::Discard, &signs, false);
        let twin_world = World::new(cx, "C17", OnPanic::Discard, &signs, false);
        {
            let mut t = twin_world.lock();
            t.log_messages = false;
            t.track_states = false;
        }
        // pre-age both buses with the same fault-free direct traffic
        let pre = cx.draw(25);
        for _ in 0..pre {
            let m = {
                let w = serial_world.lock();
                let i = cx.draw(w.models.len() as u64) as usize;
                if cx.chance(7, 8) { aware_message(cx, &w.models[i]) } else { gens::raw_message(cx, &w.addrs) }
            };
            let _ = serial_world.lock().deliver(&m);
            let _ = twin_world.lock().deliver(&m);
        }
        if serial_world.lock().dead || twin_world.lock().dead {
            return Ok(());
        }
        // workload
        struct Step {
            addr: Address,
            ty: SignType,
            op: Op,
        }
        // now and then a long session on one bus object: dozens of operations, hundreds of messages
        let long = cx.chance(1, 48);
        if long {
            cx.probe("long_session_on_one_serial_bus");
        }
        let nops = if long { 40 + cx.draw(30) } else { 1 + cx.draw(6) };
        let mut addr = if cx.chance(1, 12) { gens::other_address(cx, &addrs) } else { *cx.pick(&addrs) };
        let mut ty = gens::sign_type(cx);
        let mut steps: Vec<Step> = Vec::new();
        for k in 0..nops {
            if k > 0 && cx.chance(1, 6) {
                ty = gens::sign_type(cx);
                cx.probe("reconfigure_as_other_type");
            }
            if k > 0 && cx.chance(1, 8) {
                addr = *cx.pick(&addrs);
            }
            let op = if k == 0 && cx.chance(3, 4) {
                Op::Configure
            } else if long {
                match cx.draw(8) {
                    0 => Op::SendPages(gens::pages(cx, ty, 1)),
                    1 => Op::Show,
                    2 => Op::LoadNext,
                    3..=5 => Op::Configure,
                    6 => Op::ConfigureIfNeeded,
                    _ => {
                        if cx.chance(1, 4) {
                            Op::ShutDown
                        } else {
                            Op::Configure
                        }
                    }
                }
            } else {
                match cx.draw(6) {
                    0 | 1 => Op::SendPages(gens::pages(cx, ty, 3)),
                    2 => Op::Show,
                    3 => Op::LoadNext,
                    _ => ops::gen_op(cx, ty, 3),
                }
            };
            steps.push(Step { addr, ty, op });
        }
        let switch_den = *cx.pick(&[32u64, 8, 128, 2, 16]);
        let byte_ns = if cx.chance(1, 2) { 520_833 } else { 0 };
        let frag = cx.chance(1, 2);
        let eintr_den = *cx.pick(&[0u64, 16, 64]);
        let short_writes = cx.chance(1, 2);
        let sched = Sched::new(cx, 2, 2, switch_den, byte_ns);
        cx.event("setup", &(switch_den, byte_ns, frag, eintr_den, short_writes, steps.len()));

        let bridge_errors = Arc::new(Mutex::new(0u64));
        let mut bodies: Vec<Box<dyn FnOnce(usize) + Send>> = Vec::new();
        // ---- node A: the controller ----------------------------------------------------------
        {
            let sched = sched.clone();
            let cx = cx.clone();
            let serial_world = serial_world.clone();
            let twin_world = twin_world.clone();
            bodies.push(Box::new(move |me| {
                let wire = PipeWire { cx: cx.clone(), sched: sched.clone(), me, rx: 1, tx: 0, frag, eintr_den, eintr_run: 0, eintr_left: 0, short_writes };
                let port = SimPort::new(wire, Device::default_odd());
                let sbus = match SerialSignBus::try_new(port) {
                    Ok(b) => Rc::new(RefCell::new(b)),
                    Err(e) => {
                        cx.discard("try-new-failed");
                        sched.close_pipe(0);
                        return;
                    }
                };
                let s2 = sched.clone();
                let _ = set_sleep(Some(SleepFn(Box::new(move |d: Duration| s2.sleep(me, d)))));
                let tbus = Rc::new(RefCell::new(DirectBus(twin_world.clone())));
                // Sign objects are kept across steps while address and type stay the same, so
                // state a controller carries between calls travels down both paths alike.
                let mut current: Option<(Address, SignType, Sign, Sign)> = None;
                for (k, st) in steps.iter().enumerate() {
                    if cx.failed() || cx.is_discarded() || sched.stalled().is_some() {
                        break;
                    }
                    if !matches!(&current, Some((a, t, _, _)) if *a == st.addr && *t == st.ty) {
                        current = Some((st.addr, st.ty, Sign::new(sbus.clone(), st.addr, st.ty), Sign::new(tbus.clone(), st.addr, st.ty)));
                    }
                    let (_, _, sign, twin) = current.as_ref().unwrap();
                    cx.note(|| format!("op #{k}: controller({:#06x}, {:?}).{}", st.addr.0, st.ty, st.op.name()));
                    let out_serial = ops::apply(sign, &st.op);
                    if sched.stalled().is_some() {
                        // The serial path did not finish within the step budget. That is a
                        // divergence only if the same operation does finish directly on the bus.
                        {
                            let mut t = twin_world.lock();
                            t.delivery_cap = t.delivered + 20_000;
                        }
                        let out_twin = ops::apply(twin, &st.op);
                        if twin_world.lock().capped {
                            cx.probe("operation_ends_on_neither_path");
                        } else {
                            cx.fail(
                                "C17/serial-path-does-not-finish",
                                format!("op #{k} {} returned {out_twin:?} directly on the bus but did not finish over the serial path within the step budget", st.op.name()),
                            );
                        }
                        break;
                    }
                    // let the bridge drain whatever is still in the line
                    sched.wait_quiescent(me);
                    let backlog = sched.pipe_len(0);
                    let out_twin = ops::apply(twin, &st.op);
                    cx.hash_event("op", &(k, st.op.code(), &out_serial, &out_twin));
                    cx.note(|| format!("   over serial: {out_serial:?}    direct: {out_twin:?}"));
                    if serial_world.lock().dead || twin_world.lock().dead {
                        cx.discard("virtual-sign-panicked");
                        break;
                    }
                    if backlog != 0 {
                        cx.fail("C17/bridge-left-bytes-unread", format!("after op #{k} the bridge is idle but {backlog} byte(s) are still in the line"));
                        break;
                    }
                    if out_serial.is_ok() != out_twin.is_ok() || (out_serial.is_ok() && out_serial != out_twin) {
                        cx.fail(
                            "C17/result-diverged",
                            format!("op #{k} {}: over the serial path it returned {out_serial:?}, directly on the bus {out_twin:?}", st.op.name()),
                        );
                        break;
                    }
                    if out_serial.is_ok() {
                        cx.probe("op_succeeded_both_ways");
                    } else {
                        cx.probe("op_failed_both_ways");
                    }
                    compare_worlds(&cx, &serial_world, &twin_world, &format!("after op #{k} {}", st.op.name()));
                }
                let _ = set_sleep(None);
                sched.close_pipe(0);
            }));
        }
        // ---- node B: the ODK bridge ------------------------------------------------------------
        {
            let sched = sched.clone();
            let cx = cx.clone();
            let serial_world = serial_world.clone();
            let bridge_errors = bridge_errors.clone();
            bodies.push(Box::new(move |me| {
                let wire = PipeWire { cx: cx.clone(), sched: sched.clone(), me, rx: 0, tx: 1, frag, eintr_den, eintr_run: 0, eintr_left: 0, short_writes };
                let port = SimPort::new(wire, Device::default_odd());
                let mut odk = match Odk::try_new(port, DirectBus(serial_world)) {
                    Ok(o) => o,
                    Err(e) => {
                        cx.discard("try-new-failed");
                        return;
                    }
                };
                let mut guard = 0u64;
                loop {
                    guard += 1;
                    if guard > 100_000 || sched.stalled().is_some() {
                        break;
                    }
                    match odk.process_message() {
                        Ok(()) => {}
                        Err(_) => {
                            if sched.pipe_closed(0) && sched.pipe_len(0) == 0 {
                                break;
                            }
                            *bridge_errors.lock().unwrap() += 1;
                        }
                    }
                }
            }));
        }
        let (panics, report) = sched.run(bodies);
        for p in panics.into_iter().flatten() {
            if p.in_harness() {
                panic!("harness task panicked at {}: {}", p.location, p.message);
            }
            cx.fail(format!("C17/panic@{}", p.short_location()), format!("a node unwound: {}", p.message));
        }
        if report.stalled == Some("watchdog") {
            panic!("scheduler watchdog fired");
        }
        if report.stalled.is_some() {
            cx.probe("run_cut_at_step_cap");
        }
        cx.add_sim_ns(report.clock_ns);
        cx.distinct2(report.sched_hash);
        cx.probe_n("task_switches", report.switches);
        cx.probe_n("simulated_read_timeouts", report.timeouts);
        cx.probe_n("bridge_errors_while_line_open", *bridge_errors.lock().unwrap());
        // Pacing lets the bridge catch up after every data chunk, so at most the count/query or
        // complete/query pair can sit in the line together.
        if report.max_backlog[0] >= 16 {
            cx.probe("two_frames_in_line_together");
        }
        if !cx.is_discarded() {
            cx.set_nontrivial();
        }
        cx.verdict()
    }
}

// ---------------------------------------------------------------------------------------------
// bridge sub-scenario
// ---------------------------------------------------------------------------------------------

/// A bus behind the bridge that answers whatever the tape says -- including nothing, and
/// including exactly the message it was given (the bridge is generic over the bus; the
/// property's bridge clause does not depend on what kind of bus it drives).
struct ScriptedBus {
    cx: Cx,
    addrs: Vec<Address>,
}

impl flipdot_core::SignBus for ScriptedBus {
    fn process_message<'a>(&mut self, message: Message<'_>) -> crate::bus::BusResult<'a> {
        Ok(match self.cx.draw(6) {
            0 | 1 => None,
            2 => {
                self.cx.probe("bus_reply_equals_request");
                Some(gens::to_static(&message))
            }
            3 => Some(Message::ReportState(*self.cx.pick(&self.addrs), gens::ALL_STATES[self.cx.draw(13) as usize])),
            4 => Some(Message::AckOperation(*self.cx.pick(&self.addrs), gens::ALL_OPS[self.cx.draw(6) as usize])),
            _ => Some(gens::raw_message(&self.cx, &self.addrs)),
        })
    }
}

/// Either the real virtual bus or the scripted one.
enum BridgeBus {
    Real(DirectBus),
    Scripted(ScriptedBus),
}

impl flipdot_core::SignBus for BridgeBus {
    fn process_message<'a>(&mut self, message: Message<'_>) -> crate::bus::BusResult<'a> {
        match self {
            BridgeBus::Real(b) => b.process_message(message),
            BridgeBus::Scripted(b) => b.process_message(message),
        }
    }
}

#[derive(Clone, Debug)]
struct SharedWire(Arc<Mutex<ScriptWire>>);

impl Wire for SharedWire {
    fn wire_read(&mut self, buf: &mut [u8], timeout: Duration) -> std::io::Result<usize> {
        self.0.lock().unwrap().wire_read(buf, timeout)
    }
    fn wire_write(&mut self, buf: &[u8]) -> std::io::Result<usize> {
        self.0.lock().unwrap().wire_write(buf)
    }
}

impl Scenario for C17Bridge {
    fn name(&self) -> &'static str {
        "c17-bridge"
    }
    fn property(&self) -> &'static str {
        "C17"
    }
    fn runs(&self, tier: Tier) -> u64 {
        match tier {
            Tier::Quick => 60_000,
            Tier::Thorough => 6_000_000,
        }
    }
    fn describe(&self) -> &'static str {
        "real Odk over a simulated port in front of a recording bus around the real VirtualSignBus: valid known frames, valid unknown frames and malformed / bad-checksum / wrong-length lines are fed straight into the bridge's port (fragmented reads, EINTR, short writes)"
    }
    fn run(&self, cx: &Cx) -> Result<(), Violation> {
        let nsigns = 1 + cx.draw(2) as usize;
        let addrs = gens::distinct_addresses(cx, nsigns);
        let signs: Vec<(Address, PageFlipStyle)> = addrs.iter().map(|a| (*a, gens::flip_style(cx))).collect();
        let world = World::new(cx, "C17", OnPanic::Discard, &signs, false);
        // the lines the "ODK" will send
        let nlines = 1 + cx.draw(12);
        // per line: bytes, kind, and what the simulator knows about it independently of the
        // decoder under test (Some(Some(frame)) = encodes this frame, possibly in lower / mixed
        // case; Some(None) = certainly not a frame; None = no independent knowledge)
        let mut lines: Vec<(Vec<u8>, &'static str, Option<Option<Frame<'static>>>)> = Vec::new();
        let own = |f: Frame<'_>| -> Frame<'static> { Frame::new(f.address(), f.message_type(), gens::data(f.data().to_vec())) };
        // A shadow model steers the traffic so that the sign actually answers.
        let mut shadow = crate::models::sign::SignModel::new(signs[0].0, signs[0].1);
        // now and then one very long transfer through the bridge: more than 64 KiB of chunk data
        // between two counts (a 160x16 sign with a couple of hundred pages)
        let marathon = cx.chance(1, 5000);
        if marathon {
            cx.probe("transfer_of_more_than_64k_through_the_bridge");
            let chunks = 4100 + cx.draw(300);
            for k in 0..chunks {
                let f = own(Frame::from(Message::SendData(flipdot_core::Offset(16 * (k % 21) as u16), gens::data(gens::payload(cx, 16)))));
                lines.push((f.to_bytes_with_newline(), "known", Some(Some(f))));
            }
            let f = own(Frame::from(Message::DataChunksSent(flipdot_core::ChunkCount(chunks as u16))));
            lines.push((f.to_bytes_with_newline(), "known", Some(Some(f))));
        }
        for _ in 0..(if marathon { 0 } else { nlines }) {
            match cx.draw(8) {
                0..=3 => {
                    let m = aware_message(cx, &shadow);
                    let _ = shadow.step(&m);
                    let f = own(Frame::from(m));
                    let mut l = f.to_bytes_with_newline();
                    crate::scen::serial::recase(cx, &mut l);
                    lines.push((l, "known", Some(Some(f))));
                }
                4 => {
                    let m = gens::raw_message(cx, &addrs);
                    let _ = shadow.step(&m);
                    let f = own(Frame::from(m));
                    let mut l = f.to_bytes_with_newline();
                    crate::scen::serial::recase(cx, &mut l);
                    lines.push((l, "known-or-unknown", Some(Some(f))));
                }
                5 => {
                    if cx.chance(1, 3) {
                        // a frame terminated by a bare LF: an undecodable line of its own
                        let mut l = Frame::from(gens::raw_message(cx, &addrs)).to_bytes();
                        l.push(b'\n');
                        lines.push((l, "bare-lf", Some(None)));
                        cx.probe("undecodable_line_at_bridge");
                    } else {
                        let f = gens::unknown_frame(cx);
                        let mut l = f.to_bytes_with_newline();
                        crate::scen::serial::recase(cx, &mut l);
                        lines.push((l, "unknown", Some(Some(f))));
                    }
                }
                6 => {
                    // a frame line (a full 16-byte data chunk one time in three: the dominant shape on the
                    // wire) with one character hit: another hex digit (checksum or length no longer fit),
                    // or a character that is no hex digit at all
                    let m = if cx.chance(1, 3) { Message::SendData(flipdot_core::Offset(16 * cx.draw(8) as u16), gens::data(gens::payload(cx, 16))) } else { gens::raw_message(cx, &addrs) };
                    let mut l = Frame::from(m).to_bytes_with_newline();
                    let body = l.len() - 2;
                    let p = 1 + cx.draw(body as u64 - 1) as usize;
                    if cx.chance(1, 4) {
                        // something in front of the colon (a NUL from a line turnaround, a blank, a byte-order
                        // mark): the line no longer starts a frame
                        cx.probe("frame_line_with_a_prefix_at_the_bridge");
                        let mut pre: Vec<u8> = cx.pick(&[&b"\x00"[..], b"\x00\x00", b" ", b"\xEF\xBB\xBF", b"\xFF", b"\r"]).to_vec();
                        pre.extend_from_slice(&l);
                        lines.push((pre, "prefixed", Some(None)));
                    } else if cx.chance(1, 2) {
                        l[p] = match l[p] {
                            b'0' => b'1',
                            _ => b'0',
                        };
                        lines.push((l, "bad-checksum-or-length", Some(None)));
                    } else if cx.chance(1, 3) && (1..body).step_by(2).any(|q| l[q] == b'0') {
                        // a sign character where a digit pair (or the address field) begins with a zero:
                        // "+3" is 3 to a lenient number parser, and the checksum still fits -- but it is no hex
                        let zs: Vec<usize> = (1..body).step_by(2).filter(|q| l[*q] == b'0').collect();
                        let q = zs[cx.draw(zs.len() as u64) as usize];
                        l[q] = b'+';
                        cx.probe("frame_line_with_a_sign_character_for_a_leading_zero");
                        lines.push((l, "sign-character", Some(None)));
                    } else {
                        const NOT_HEX: &[u8] = b"GHIJKLMNOPQRSTUVWXYZghijklmnopqrstuvwxyz /@`.;-_#\x00\x7f\xb1\xc1";
                        l[p] = *cx.pick(NOT_HEX);
                        cx.probe("frame_line_with_a_non_hex_character");
                        lines.push((l, "non-hex-character", Some(None)));
                    }
                    cx.probe("undecodable_line_at_bridge");
                }
                _ => {
                    if cx.chance(1, 8) {
                        // frame-shaped, but made of non-ASCII decimal digits (U+0660..)
                        cx.probe("line_of_non_ascii_digits");
                        let mut g: Vec<u8> = vec![b':'];
                        for _ in 0..(10 + 2 * cx.draw(4) as usize) {
                            g.extend_from_slice(&[0xD9, 0xA0 + cx.draw(10) as u8]);
                        }
                        g.extend_from_slice(b"\r\n");
                        lines.push((g, "non-ascii-digits", Some(None)));
                        cx.probe("undecodable_line_at_bridge");
                        continue;
                    }
                    let n = if cx.chance(1, 16) { 900 + cx.draw(8000) as usize } else { cx.draw(16) as usize };
                    let mut g = cx.bytes(n);
                    for b in g.iter_mut() {
                        if *b == b'\n' {
                            *b = b'#';
                        }
                    }
                    g.extend_from_slice(b"\r\n");
                    // an empty or all-whitespace line is certainly not a frame
                    let know = if g.iter().all(|b| b.is_ascii_whitespace()) { Some(None) } else { None };
                    lines.push((g, "malformed", know));
                    cx.probe("undecodable_line_at_bridge");
                }
            }
        }
        let incoming: Vec<u8> = lines.iter().flat_map(|l| l.0.iter().copied()).collect();
        let mut w = ScriptWire::new(cx, SimClock::default(), incoming);
        w.frag = cx.chance(1, 2);
        w.eintr_den = *cx.pick(&[0u64, 8, 32]);
        w.short_writes = cx.chance(1, 2);
        let wire = Arc::new(Mutex::new(w));
        let port = SimPort::new(SharedWire(wire.clone()), Device::default_odd());
        let scripted = cx.chance(1, 3);
        if scripted {
            cx.probe("scripted_bus_behind_the_bridge");
        }
        let inner = if scripted { BridgeBus::Scripted(ScriptedBus { cx: cx.clone(), addrs: addrs.clone() }) } else { BridgeBus::Real(DirectBus(world.clone())) };
        let (rec, history) = RecordingBus::new(inner);
        let mut odk = match Odk::try_new(port, rec) {
            Ok(o) => o,
            Err(e) => {
                cx.discard("try-new-failed");
                return cx.verdict();
            }
        };
        cx.set_nontrivial();
        for (i, (line, kind, know)) in lines.iter().enumerate() {
            let written_before = wire.lock().unwrap().written.len();
            let _ = take_history(&history);
            let r = odk.process_message();
            if world.lock().dead {
                return Ok(());
            }
            let h = take_history(&history);
            let written = wire.lock().unwrap().written[written_before..].to_vec();
            cx.hash_event("line", &(i, *kind, r.is_ok(), h.len(), written.len()));
            cx.note(|| format!("line #{i} [{kind}] {:?} -> {:?}, bus called {} time(s), {} byte(s) written back", String::from_utf8_lossy(line), r.as_ref().map_err(|e| e.to_string()), h.len(), written.len()));
            let decoded: Result<Frame<'static>, ()> = match know {
                Some(Some(f)) => Ok(f.clone()),
                Some(None) => Err(()),
                None => Frame::from_bytes(line).map(|f| Frame::new(f.address(), f.message_type(), gens::data(f.data().to_vec()))).map_err(|_| ()),
            };
            match decoded {
                Ok(f) => {
                    if let Err(e) = &r {
                        cx.fail("C17/bridge-failed-on-valid-line", format!("line #{i} decodes, yet the bridge returned {e}"));
                        return cx.verdict();
                    }
                    if h.len() != 1 {
                        cx.fail("C17/bridge-forward-count", format!("line #{i}: the bus was called {} time(s) for one decodable frame", h.len()));
                        return cx.verdict();
                    }
                    let forwarded = Frame::from(h[0].sent.clone());
                    if forwarded != f {
                        cx.fail(
                            "C17/bridge-forwarded-different-frame",
                            format!("line #{i}: received frame addr {:#06x} type {} ({} data bytes), forwarded {}", f.address().0, f.message_type().0, f.data().len(), show(&h[0].sent)),
                        );
                        return cx.verdict();
                    }
                    let want: Vec<u8> = match &h[0].reply {
                        Reply::Msg(Some(m)) => {
                            cx.probe("bridge_wrote_reply");
                            Frame::from(m.clone()).to_bytes_with_newline()
                        }
                        _ => {
                            cx.probe("bridge_silent_no_reply");
                            vec![]
                        }
                    };
                    if written != want {
                        cx.fail(
                            "C17/bridge-write-back",
                            format!("line #{i}: the bus replied {:?}; the bridge wrote {:?}, wanted {:?}", h[0].reply, String::from_utf8_lossy(&written), String::from_utf8_lossy(&want)),
                        );
                        return cx.verdict();
                    }
                }
                Err(_) => {
                    if !matches!(r, Err(OdkError::Communication { .. })) {
                        cx.fail("C17/undecodable-line-not-reported", format!("line #{i} {:?} cannot be decoded, yet the bridge returned {:?}", String::from_utf8_lossy(line), r.as_ref().map_err(|e| e.to_string())));
                        return cx.verdict();
                    }
                    if !h.is_empty() {
                        cx.fail("C17/undecodable-line-touched-bus", format!("line #{i} cannot be decoded, yet the bus received {}", show(&h[0].sent)));
                        return cx.verdict();
                    }
                    if !written.is_empty() {
                        cx.fail("C17/undecodable-line-answered", format!("line #{i} cannot be decoded, yet {} byte(s) were written back", written.len()));
                        return cx.verdict();
                    }
                }
            }
        }
        cx.verdict()
    }
}
