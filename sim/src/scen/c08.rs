//! C08: pages sent through the controller arrive bit-exact, from any prior sign state.
//!
//! Phase A (faults on): controllers of arbitrary sign types talk to the signs through the
//! fault-injecting bus and crash at arbitrary messages; raw traffic is mixed in. This only
//! manufactures prior states. Phase B (faults off): a fresh controller must configure the sign,
//! deliver pages bit-exact and flip them, whatever phase A left behind.

use std::cell::RefCell;
use std::rc::Rc;

use flipdot::Sign;
use flipdot_core::{PageFlipStyle, PageId, State};

use crate::bus::{DirectBus, OnPanic, World, MSG_FAULTS};
use crate::core::{stable_hash, Cx, Scenario, Tier, Violation};
use crate::gens;
use crate::ops::{self, Op, Outcome};
use crate::scen::signnode::{aware_message, controller_segment, deliver_probed, make_signs};

pub struct C08;

const READY: [State; 6] =
    [State::ConfigReceived, State::ShowingPages, State::PageLoaded, State::PageShowInProgress, State::PageShown, State::PageLoadInProgress];

fn fail(cx: &Cx, class: &str, detail: String) -> Result<(), Violation> {
    cx.fail(format!("C08/{class}"), detail);
    cx.verdict()
}

impl Scenario for C08 {
    fn name(&self) -> &'static str {
        "c08-recover-and-send"
    }
    fn property(&self) -> &'static str {
        "C08"
    }
    fn runs(&self, tier: Tier) -> u64 {
        match tier {
            Tier::Quick => 400_000,
            Tier::Thorough => 30_000_000,
        }
    }
    fn describe(&self) -> &'static str {
        "phase A: real Sign controllers (any type) through the fault-injecting bus with crashes + raw traffic leave 1-3 real VirtualSigns in arbitrary states; phase B: faults stop, a fresh real Sign must configure, send pages bit-exact, and flip"
    }

    fn run(&self, cx: &Cx) -> Result<(), Violation> {
        let signs = make_signs(cx);
        let world = World::new(cx, "C08", OnPanic::Discard, &signs, false);
        let target = cx.draw(signs.len() as u64) as usize;
        let (addr, flip) = signs[target];

        // ---- phase A: manufacture a prior state --------------------------------------------
        let segments = cx.draw(9);
        for _ in 0..segments {
            if world.lock().dead {
                return Ok(());
            }
            if cx.chance(1, 3) {
                let n = 1 + cx.draw(30);
                for _ in 0..n {
                    let m = {
                        let w = world.lock();
                        let i = if cx.chance(3, 4) { target } else { cx.draw(w.models.len() as u64) as usize };
                        if cx.chance(7, 8) { aware_message(cx, &w.models[i]) } else { gens::raw_message(cx, &w.addrs) }
                    };
                    deliver_probed(cx, &world, &m);
                }
            } else {
                controller_segment(cx, &world, &MSG_FAULTS);
            }
        }
        if world.lock().dead || cx.is_discarded() || world.lock().capped {
            return Ok(());
        }

        // ---- phase B: faults have stopped ---------------------------------------------------
        {
            let mut w = world.lock();
            w.on_panic = OnPanic::Fail;
            // from here on every call must end, and end well
            w.cap_is_violation = true;
            w.delivery_cap = w.delivered + 20_000;
        }
        let t = gens::sign_type(cx);
        let (prior_state, prior_type, prior_pages, prior_dims) = {
            let w = world.lock();
            let s = w.sign(target);
            cx.probe(&format!("prior_state:{:?}", s.state()));
            if !w.models[target].pending.is_empty() {
                cx.probe("prior_pending_nonempty");
            }
            match s.sign_type() {
                Some(pt) if pt != t => cx.probe("prior_type_different"),
                None if w.models[target].w > 0 => cx.probe("prior_type_unknown_custom_config"),
                _ => {}
            }
            cx.distinct2(stable_hash(&(stable_hash(s), t)));
            // Dimensions of the configuration block the sign last digested, as the documented
            // layout defines them (known to the simulator because it saw every delivered block).
            let dims = (w.models[target].w, w.models[target].h);
            (s.state(), s.sign_type(), s.pages().iter().map(|p| p.as_bytes().to_vec()).collect::<Vec<_>>(), dims)
        };
        cx.event("phaseB", &(addr.0, t, gens::state_index(prior_state)));
        cx.note(|| format!("--- faults stop; prior state {prior_state:?}, prior type {prior_type:?}; new controller ({:#06x}, {t:?})", addr.0));
        let bus = Rc::new(RefCell::new(DirectBus(world.clone())));
        let sign = Sign::new(bus.clone(), addr, t);
        // A caller's lazy page source may consult the bus (progress display, another sign ...):
        // the bus must be free whenever the page list is advanced.
        let cxp = cx.clone();
        let probe = move || {
            if bus.try_borrow_mut().is_err() {
                cxp.fail("C08/bus-held-while-page-list-is-advanced", "the shared bus was still mutably borrowed when send_pages asked the page list for its next page; a lazy page source that looks at the bus would panic here".to_string());
            }
        };
        cx.set_nontrivial();

        let rounds = 1 + cx.draw(2);
        for round in 0..rounds {
            // 1. configure
            let use_cin = round == 0 && cx.chance(1, 3);
            // configure_if_needed is judged only where the property quantifies it: the sign is not
            // ready, or it is configured as the same type. "Configured as the same type" is read
            // as: it records that type AND the block it digested carried that type's dimensions
            // (a block damaged in transit can keep the family/id bytes of T while its size fields
            // say something else; such a sign is not configured as T, see DESIGN.md section 12).
            let same_type = prior_type == Some(t) && prior_dims == t.dimensions();
            if READY.contains(&prior_state) && prior_type == Some(t) && !same_type {
                cx.probe("ready_with_type_id_of_T_but_other_dimensions");
            }
            let cin_applicable = !READY.contains(&prior_state) || same_type;
            if use_cin && cin_applicable {
                cx.probe("configure_if_needed_judged");
                let out = ops::apply(&sign, &Op::ConfigureIfNeeded);
                cx.event("cin", &out);
                if out != Outcome::Ok {
                    return fail(cx, "configure-if-needed-failed", format!("configure_if_needed from prior state {prior_state:?} (type {prior_type:?}) returned {out:?}"));
                }
                let w = world.lock();
                let s = w.sign(target);
                if s.sign_type() != Some(t) {
                    return fail(cx, "configure-if-needed-wrong-type", format!("after configure_if_needed the sign records {:?}, wanted {t:?}", s.sign_type()));
                }
                let fresh = s.state() == State::ConfigReceived && s.pages().is_empty();
                let untouched = READY.contains(&s.state()) && s.pages().iter().map(|p| p.as_bytes().to_vec()).collect::<Vec<_>>() == prior_pages;
                if READY.contains(&prior_state) {
                    cx.probe("configure_if_needed_trusted");
                }
                if !(fresh || untouched) {
                    return fail(
                        cx,
                        "configure-if-needed-bad-state",
                        format!("after configure_if_needed from {prior_state:?} the sign is in {:?} with {} page(s)", s.state(), s.pages().len()),
                    );
                }
            } else {
                let out = ops::apply(&sign, &Op::Configure);
                cx.event("configure", &out);
                if out != Outcome::Ok {
                    return fail(cx, "configure-failed", format!("configure from prior state {prior_state:?} (type {prior_type:?}) returned {out:?}"));
                }
                let w = world.lock();
                let s = w.sign(target);
                if s.state() != State::ConfigReceived || s.sign_type() != Some(t) || !s.pages().is_empty() {
                    return fail(
                        cx,
                        "configure-bad-result",
                        format!("after configure: state {:?}, type {:?}, {} page(s); wanted ConfigReceived, Some({t:?}), none", s.state(), s.sign_type(), s.pages().len()),
                    );
                }
            }
            cx.verdict()?;

            // 2./3. send pages and flip, possibly twice
            let sends = 1 + cx.draw(2);
            for _ in 0..sends {
                let mut pages = gens::pages(cx, t, 4);
                if cx.chance(1, 4) {
                    // a page obtained from the controller itself (`Sign::create_page`) and drawn on
                    cx.probe("page_from_sign_create_page");
                    let mut p = sign.create_page(PageId(cx.draw(256) as u8));
                    let (w, h) = (p.width(), p.height());
                    if w > 0 && h > 0 {
                        for _ in 0..cx.draw(12) {
                            let (x, y) = (cx.draw(u64::from(w)) as u32, cx.draw(u64::from(h)) as u32);
                            p.set_pixel(x, y, !cx.chance(1, 4));
                        }
                    }
                    let at = cx.draw(pages.len() as u64 + 1) as usize;
                    pages.insert(at, p);
                }
                cx.probe(&format!("pages_sent:{}", pages.len()));
                let out = if cx.chance(1, 3) {
                    cx.probe("page_list_that_looks_at_the_bus");
                    ops::apply_probed(&sign, &Op::SendPages(pages.clone()), &probe)
                } else {
                    ops::apply(&sign, &Op::SendPages(pages.clone()))
                };
                cx.event("send", &(pages.len(), &out));
                cx.note(|| format!("send_pages({} pages) -> {out:?}", pages.len()));
                let want = Outcome::OkStyle(flip == PageFlipStyle::Automatic);
                if out != want {
                    return fail(cx, "send-pages-outcome", format!("send_pages({} pages) to a {flip:?} sign returned {out:?}, wanted {want:?}", pages.len()));
                }
                {
                    let w = world.lock();
                    let s = w.sign(target);
                    let got = s.pages();
                    let same = got.len() == pages.len()
                        && got.iter().zip(pages.iter()).all(|(g, p)| g.as_bytes() == p.as_bytes() && g.width() == p.width() && g.height() == p.height());
                    if !same {
                        let first_diff = got.iter().zip(pages.iter()).position(|(g, p)| g.as_bytes() != p.as_bytes());
                        return fail(
                            cx,
                            "pages-differ",
                            format!("sent {} page(s), sign holds {} page(s); first differing page index {:?}", pages.len(), got.len(), first_diff),
                        );
                    }
                    let want_state = if flip == PageFlipStyle::Automatic { State::ShowingPages } else { State::PageLoaded };
                    if s.state() != want_state {
                        return fail(cx, "state-after-send", format!("after send_pages a {flip:?} sign is in {:?}, wanted {want_state:?}", s.state()));
                    }
                }
                cx.verdict()?;
                let flips = cx.draw(5);
                for _ in 0..flips {
                    let show = cx.draw(2) == 0;
                    let op = if show { Op::Show } else { Op::LoadNext };
                    let out = ops::apply(&sign, &op);
                    cx.event("flip", &(show, &out));
                    if out != Outcome::Ok {
                        return fail(cx, "flip-failed", format!("{} returned {out:?}", op.name()));
                    }
                    let w = world.lock();
                    let s = w.sign(target);
                    let want_state = match (flip, show) {
                        (PageFlipStyle::Automatic, _) => State::ShowingPages,
                        (PageFlipStyle::Manual, true) => State::PageShown,
                        (PageFlipStyle::Manual, false) => State::PageLoaded,
                    };
                    if s.state() != want_state {
                        return fail(cx, "state-after-flip", format!("after {} a {flip:?} sign is in {:?}, wanted {want_state:?}", op.name(), s.state()));
                    }
                    let unchanged = s.pages().len() == pages.len() && s.pages().iter().zip(pages.iter()).all(|(g, p)| g.as_bytes() == p.as_bytes());
                    if !unchanged {
                        return fail(cx, "pages-changed-by-flip", format!("{} changed the stored pages", op.name()));
                    }
                    cx.verdict()?;
                }
            }
            // 4. shut down before another round
            if round + 1 < rounds {
                let out = ops::apply(&sign, &Op::ShutDown);
                if out != Outcome::Ok {
                    return fail(cx, "shut-down-failed", format!("shut_down returned {out:?}"));
                }
                let w = world.lock();
                let s = w.sign(target);
                if s.state() != State::Unconfigured || s.sign_type().is_some() || !s.pages().is_empty() {
                    return fail(cx, "not-blank-after-shut-down", format!("after shut_down: {:?}, {:?}, {} page(s)", s.state(), s.sign_type(), s.pages().len()));
                }
                cx.probe("shut_down_then_again");
            }
        }
        cx.verdict()
    }
}
