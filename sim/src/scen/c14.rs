//! C14: signs sharing a bus are isolated; replies come only from the addressed sign.
//!
//! One real VirtualSignBus with 1-4 real signs is shared by 1-4 real `Sign` controllers, each on
//! its own scheduler-controlled thread, plus a raw traffic task. Every `process_message` is a
//! yield point, so the tape decides whose next message reaches the bus: two transfers interleave
//! chunk by chunk. After every delivered message the isolation oracles run.

use std::cell::RefCell;
use std::rc::Rc;
use std::sync::{Arc, Mutex};

use flipdot::Sign;
use flipdot_core::{Address, Message, PageFlipStyle, SignBus, SignType, State};
use flipdot_testing::{VirtualSign, VirtualSignBus};

use crate::bus::BusResult;
use crate::core::{catch, stable_hash, Cx, Scenario, Tier, Violation};
use crate::gens::{self, show, show_opt, to_static};
use crate::ops;
use crate::sched::Sched;

pub struct C14;

#[derive(Clone, PartialEq, Eq, Debug)]
struct Obs {
    state: State,
    ty: Option<SignType>,
    pages: Vec<(u32, u32, Vec<u8>)>,
}

fn observe(s: &VirtualSign<'_>) -> Obs {
    Obs { state: s.state(), ty: s.sign_type(), pages: s.pages().iter().map(|p| (p.width(), p.height(), p.as_bytes().to_vec())).collect() }
}

struct SharedBusState {
    cx: Cx,
    bus: VirtualSignBus<'static>,
    /// one bus per sign holding only a twin of that sign, fed only the traffic that concerns it
    /// solo twins: bare signs driven through `VirtualSign::process_message`, no bus around them
    shadows: Vec<VirtualSign<'static>>,
    addrs: Vec<Address>,
    dead: bool,
    delivered: u64,
}

fn receiving(s: State) -> bool {
    matches!(s, State::ConfigInProgress | State::PixelsInProgress)
}

fn target_address(m: &Message<'_>) -> Option<Address> {
    match m {
        Message::Hello(a) | Message::QueryState(a) | Message::RequestOperation(a, _) | Message::PixelsComplete(a) | Message::Goodbye(a) => Some(*a),
        _ => None,
    }
}

impl SharedBusState {
    fn deliver(&mut self, who: usize, m: &Message<'_>) -> Option<Message<'static>> {
        if self.dead || self.cx.failed() {
            return None;
        }
        self.delivered += 1;
        let n = self.addrs.len();
        let before: Vec<Obs> = (0..n).map(|i| observe(self.bus.sign(i))).collect();
        let bus = &mut self.bus;
        let reply = match catch(|| bus.process_message(m.clone())) {
            Ok(Ok(r)) => r.map(|r| to_static(&r)),
            Ok(Err(e)) => {
                self.cx.fail("C14/virtual-bus-error", format!("{e}"));
                return None;
            }
            Err(_) => {
                self.dead = true;
                self.cx.discard("virtual-sign-panicked");
                return None;
            }
        };
        // Each shadow holds only a twin of sign i and is fed ONLY what concerns that sign: messages
        // addressed to it, and unaddressed data messages that arrive while it is receiving. If the
        // signs are isolated, leaving everything else out can never make a difference -- neither
        // now nor later (hidden state included).
        let data_msg = matches!(m, Message::SendData(..) | Message::DataChunksSent(..));
        let mut shadow_replies: Vec<Option<Message<'static>>> = Vec::with_capacity(n);
        for (i, sh) in self.shadows.iter_mut().enumerate() {
            let relevant = target_address(m) == Some(self.addrs[i]) || (data_msg && receiving(before[i].state));
            if !relevant {
                shadow_replies.push(None);
                continue;
            }
            match catch(|| sh.process_message(m)) {
                Ok(r) => shadow_replies.push(r.map(|r| to_static(&r))),
                _ => {
                    self.dead = true;
                    self.cx.discard("virtual-sign-panicked");
                    return None;
                }
            }
        }
        self.cx.hash_event("deliver", &(who, stable_hash(m), stable_hash(&reply)));
        self.cx.note(|| format!("  [task {who}] {} => {}", show(m), show_opt(&reply)));
        self.cx.distinct(stable_hash(&(0..n).map(|i| gens::state_index(self.bus.sign(i).state())).collect::<Vec<_>>()));
        let after: Vec<Obs> = (0..n).map(|i| observe(self.bus.sign(i))).collect();

        // probes
        let in_pixels = after.iter().filter(|o| o.state == State::PixelsInProgress).count();
        if in_pixels >= 2 {
            self.cx.probe("two_signs_in_PixelsInProgress");
        }
        if matches!(m, Message::SendData(..)) && before.iter().filter(|o| receiving(o.state)).count() >= 2 {
            self.cx.probe("chunk_absorbed_by_two_signs");
        }

        match target_address(m) {
            Some(a) => {
                let idx = self.addrs.iter().position(|x| *x == a);
                // 1. non-interference
                for i in 0..n {
                    if Some(i) != idx && before[i] != after[i] {
                        self.cx.fail(
                            "C14/other-sign-changed",
                            format!("{} changed sign {:#06x}: {:?} -> {:?} ({} -> {} pages)", show(m), self.addrs[i].0, before[i].state, after[i].state, before[i].pages.len(), after[i].pages.len()),
                        );
                        return reply;
                    }
                }
                // 2. reply
                match idx {
                    None => {
                        self.cx.probe("absent_address");
                        if reply.is_some() {
                            self.cx.fail("C14/reply-for-absent-address", format!("{} is for an address nobody has, yet the bus replied {}", show(m), show_opt(&reply)));
                            return reply;
                        }
                    }
                    Some(i) => {
                        if i >= 1 && reply.is_some() {
                            self.cx.probe("reply_from_sign_index_ge_1");
                        }
                        if reply != shadow_replies[i] {
                            self.cx.fail(
                                "C14/reply-differs-from-solo-sign",
                                format!("{}: the bus replied {}, the addressed sign alone replies {}", show(m), show_opt(&reply), show_opt(&shadow_replies[i])),
                            );
                            return reply;
                        }
                        let reply_addr = match &reply {
                            Some(Message::ReportState(ra, _)) | Some(Message::AckOperation(ra, _)) => Some(*ra),
                            _ => None,
                        };
                        if let Some(ra) = reply_addr {
                            if ra != a {
                                self.cx.fail("C14/reply-carries-other-address", format!("{} answered with {}", show(m), show_opt(&reply)));
                                return reply;
                            }
                        } else if reply.is_some() {
                            self.cx.fail("C14/reply-carries-other-address", format!("{} answered with {}", show(m), show_opt(&reply)));
                            return reply;
                        }
                    }
                }
            }
            None => {
                // 4. unaddressed (data) and sign->controller / unknown messages
                if reply.is_some() {
                    self.cx.fail("C14/reply-to-unaddressed-message", format!("{} got the reply {}", show(m), show_opt(&reply)));
                    return reply;
                }
                for i in 0..n {
                    if before[i] != after[i] && !(data_msg && receiving(before[i].state)) {
                        self.cx.fail(
                            "C14/non-receiving-sign-changed",
                            format!(
                                "{} changed sign {:#06x}, which was in {:?} (not receiving): now {:?}, {} -> {} page(s)",
                                show(m),
                                self.addrs[i].0,
                                before[i].state,
                                after[i].state,
                                before[i].pages.len(),
                                after[i].pages.len()
                            ),
                        );
                        return reply;
                    }
                }
            }
        }
        // 3. every sign behaves exactly like a twin that only ever saw its own traffic
        for i in 0..n {
            let solo = observe(&self.shadows[i]);
            if solo != after[i] {
                self.cx.fail(
                    "C14/differs-from-solo-sign",
                    format!(
                        "after {}: sign {:#06x} on the shared bus is {:?}/{:?}/{} page(s); a twin that saw only the traffic concerning this sign is {:?}/{:?}/{} page(s)",
                        show(m),
                        self.addrs[i].0,
                        after[i].state,
                        after[i].ty,
                        after[i].pages.len(),
                        solo.state,
                        solo.ty,
                        solo.pages.len()
                    ),
                );
                return reply;
            }
            // ... also as a whole value: `VirtualSign` is `PartialEq` / `Debug` / `Clone` / `Hash`, so what
            // a caller can observe includes what those see (buffered bytes, counters)
            if &self.shadows[i] != self.bus.sign(i) {
                self.cx.fail(
                    "C14/differs-from-solo-sign-as-a-value",
                    format!(
                        "after {}: sign {:#06x} on the shared bus no longer equals (==) a twin that saw only the traffic concerning this sign, although state, type and pages agree",
                        show(m),
                        self.addrs[i].0
                    ),
                );
                return reply;
            }
        }
        reply
    }
}

struct ProxyBus {
    sched: Sched,
    me: usize,
    shared: Arc<Mutex<SharedBusState>>,
}

impl std::fmt::Debug for ProxyBus {
    fn fmt(&self, f: &mut std::fmt::Formatter<'_>) -> std::fmt::Result {
        write!(f, "ProxyBus({})", self.me)
    }
}

impl SignBus for ProxyBus {
    fn process_message<'a>(&mut self, message: Message<'_>) -> BusResult<'a> {
        self.sched.yield_point(self.me);
        if self.sched.stalled().is_some() {
            return Err(Box::new(crate::bus::SimBusError("simulation stalled")));
        }
        let r = self.shared.lock().unwrap_or_else(|p| p.into_inner()).deliver(self.me, &message);
        Ok(r)
    }
}

impl Scenario for C14 {
    fn name(&self) -> &'static str {
        "c14-shared-bus"
    }
    fn property(&self) -> &'static str {
        "C14"
    }
    fn runs(&self, tier: Tier) -> u64 {
        match tier {
            Tier::Quick => 100_000,
            Tier::Thorough => 6_000_000,
        }
    }
    fn describe(&self) -> &'static str {
        "one real VirtualSignBus with 1-4 real VirtualSigns shared by 1-4 real Sign controllers (some for absent addresses) on scheduler-controlled threads plus a raw traffic task; the seeded scheduler decides at every message whose message reaches the bus next"
    }
    fn run(&self, cx: &Cx) -> Result<(), Violation> {
        let nsigns = if cx.chance(1, 24) {
            cx.probe("bus_with_8_or_more_signs");
            8 + cx.draw(5) as usize
        } else {
            1 + cx.draw(4) as usize
        };
        let addrs = gens::distinct_addresses(cx, nsigns);
        let flips: Vec<PageFlipStyle> = (0..nsigns).map(|_| gens::flip_style(cx)).collect();
        // Signs need not be fresh when the bus is put together: now and then one has been driven on its own
        // before (through the public `VirtualSign::process_message`) and joins the bus mid-transfer or
        // already configured. Its solo twin starts as a clone of it.
        let mut signs: Vec<VirtualSign<'static>> = addrs.iter().zip(flips.iter()).map(|(a, f)| VirtualSign::new(*a, *f)).collect();
        for sg in signs.iter_mut() {
            if cx.chance(1, 6) {
                cx.probe("sign_that_joined_the_bus_with_a_history");
                let a = sg.address();
                let block = gens::sign_type(cx).to_bytes().to_vec();
                let mut pre: Vec<Message<'static>> = vec![Message::RequestOperation(a, flipdot_core::Operation::ReceiveConfig), Message::SendData(flipdot_core::Offset(0), gens::data(block))];
                if cx.chance(2, 3) {
                    pre.push(Message::DataChunksSent(flipdot_core::ChunkCount(1)));
                    if cx.chance(2, 3) {
                        pre.push(Message::RequestOperation(a, flipdot_core::Operation::ReceivePixels));
                        for k in 0..cx.draw(4) {
                            pre.push(Message::SendData(flipdot_core::Offset(16 * k as u16), gens::data(gens::payload(cx, 16))));
                        }
                    }
                }
                for m in &pre {
                    if catch(|| sg.process_message(m)).is_err() {
                        cx.discard("virtual-sign-panicked");
                        return cx.verdict();
                    }
                }
            }
        }
        let shadows: Vec<VirtualSign<'static>> = signs.clone();
        let bus = VirtualSignBus::new(signs);
        cx.event("bus", &addrs.iter().zip(flips.iter()).map(|(a, f)| (a.0, *f == PageFlipStyle::Automatic)).collect::<Vec<_>>());
        let shared = Arc::new(Mutex::new(SharedBusState { cx: cx.clone(), bus, shadows, addrs: addrs.clone(), dead: false, delivered: 0 }));
        let nctl = 1 + cx.draw(4) as usize;
        let with_raw = cx.chance(2, 3);
        let ntasks = nctl + usize::from(with_raw);
        let switch_den = *cx.pick(&[2u64, 1, 4, 16]);
        let sched = Sched::new(cx, ntasks, 0, switch_den, 0);

        // Plan every controller's work up front (so the tape prefix fixes the workload).
        struct Plan {
            addr: Address,
            ty: SignType,
            ops: Vec<ops::Op>,
        }
        let mut plans: Vec<Plan> = Vec::new();
        for _ in 0..nctl {
            let addr = if cx.chance(1, 6) { gens::other_address(cx, &addrs) } else { *cx.pick(&addrs) };
            let ty = gens::ALL_TYPES[cx.draw(4) as usize];
            let mut o = vec![ops::Op::Configure];
            let extra = cx.draw(4);
            for _ in 0..extra {
                o.push(match cx.draw(5) {
                    0 | 1 if cx.chance(1, 30) => {
                        // a long show: dozens of pages in one transfer, overheard by every other sign
                        cx.probe("transfer_of_30_to_70_pages");
                        let (w, h) = ty.dimensions();
                        let n = 30 + cx.draw(41);
                        ops::Op::SendPages((0..n).map(|_| gens::page(cx, w, h)).collect())
                    }
                    0 | 1 => ops::Op::SendPages(gens::pages(cx, ty, 2)),
                    2 => ops::Op::Show,
                    3 => ops::Op::LoadNext,
                    _ => ops::gen_op(cx, ty, 2),
                });
            }
            if cx.chance(1, 3) {
                o.remove(0);
            }
            plans.push(Plan { addr, ty, ops: o });
        }
        let raw_n = 1 + cx.draw(40);
        let mut bodies: Vec<Box<dyn FnOnce(usize) + Send>> = Vec::new();
        for p in plans {
            let sched = sched.clone();
            let shared = shared.clone();
            let cx2 = cx.clone();
            bodies.push(Box::new(move |me| {
                let bus = Rc::new(RefCell::new(ProxyBus { sched, me, shared }));
                let sign = Sign::new(bus, p.addr, p.ty);
                for op in &p.ops {
                    if cx2.failed() {
                        break;
                    }
                    cx2.note(|| format!("[task {me}] controller({:#06x}, {:?}).{}", p.addr.0, p.ty, op.name()));
                    let out = ops::apply(&sign, op);
                    cx2.hash_event("op", &(me, op.code(), &out));
                }
            }));
        }
        if with_raw {
            let sched = sched.clone();
            let shared = shared.clone();
            let cx2 = cx.clone();
            let addrs2 = addrs.clone();
            bodies.push(Box::new(move |me| {
                let mut bus = ProxyBus { sched, me, shared };
                for _ in 0..raw_n {
                    if cx2.failed() {
                        break;
                    }
                    let m = gens::raw_message(&cx2, &addrs2);
                    let _ = bus.process_message(m);
                }
            }));
        }
        let (panics, report) = sched.run(bodies);
        for p in panics.into_iter().flatten() {
            if p.in_harness() {
                panic!("harness task panicked at {}: {}", p.location, p.message);
            }
            cx.fail(format!("C14/panic@{}", p.short_location()), format!("a controller task unwound: {}", p.message));
        }
        if report.stalled == Some("watchdog") {
            panic!("scheduler watchdog fired");
        }
        if report.stalled.is_some() {
            // a controller (traffic source) that never stops is not an isolation problem: every
            // delivered message was judged, the rest of the run is simply cut
            cx.probe("run_cut_at_step_cap");
        }
        cx.distinct2(report.sched_hash);
        cx.probe_n("task_switches", report.switches);
        if shared.lock().unwrap().delivered >= 5 {
            cx.set_nontrivial();
        }
        cx.verdict()
    }
}
