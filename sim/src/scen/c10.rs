//! C10 / C11: the real controller against an adversarial bus.
//!
//! Every reply is drawn from the full reply alphabet (any state or ack from the controller's own
//! or a foreign address, silence, controller-side messages used as replies, unknown frames, bus
//! errors), biased per run towards the reply that keeps the protocol going so that complete
//! transfers are reached. C10 compares the controller with the reference model in lock-step;
//! C11 judges the recorded conversation with a separate invariant checker that does not use
//! the model as an oracle.

use std::cell::RefCell;
use std::rc::Rc;

use flipdot::Sign;
use flipdot_core::{Address, Frame, Message, Operation, SignBus, SignType, State};

use crate::bus::{BusResult, SimBusError};
use crate::core::{stable_hash, Cx, Scenario, Tier, Violation};
use crate::gens::{self, show, show_opt, to_static};
use crate::models::controller::{BusReply, Call, ControllerModel, Loc};
use crate::ops::{self, Op, Outcome};

#[derive(Clone, Copy, PartialEq, Eq)]
pub enum Judge {
    Model,
    Invariants,
}

pub struct Adversary {
    pub judge: Judge,
}

#[derive(Clone, Debug)]
pub struct Turn {
    pub sent: Message<'static>,
    pub reply: BusReply,
}

struct AdvBus {
    cx: Cx,
    addr: Address,
    model: ControllerModel,
    judge: Judge,
    /// good-reply probability numerator out of 20
    good_num: u64,
    turns: Vec<Turn>,
    in_progress_run: u32,
    cut: bool,
    /// how many in-progress answers in a row the adversary may give (8 normally, rarely hundreds)
    max_in_progress: u32,
    last_sent: Option<Message<'static>>,
}

fn reply_class(r: &BusReply, own: Address) -> u32 {
    match r {
        BusReply::Err => 0,
        BusReply::Msg(None) => 1,
        BusReply::Msg(Some(Message::ReportState(a, s))) => 10 + gens::state_index(*s) as u32 + if *a == own { 0 } else { 20 },
        BusReply::Msg(Some(Message::AckOperation(a, o))) => 60 + gens::op_index(*o) as u32 + if *a == own { 0 } else { 10 },
        BusReply::Msg(Some(Message::Unknown(_))) => 2,
        BusReply::Msg(Some(_)) => 3,
    }
}

impl AdvBus {
    fn draw_reply(&mut self) -> BusReply {
        let cx = &self.cx;
        let own = self.addr;
        // After many messages only good replies, and never more than 8 in-progress answers in a
        // row, so that every call ends.
        if self.turns.len() > 120 + 2 * self.max_in_progress as usize {
            return self.model.good_reply();
        }
        // a long wait for the sign: keep answering "in progress" while polling
        if self.max_in_progress > 8 && self.model.loc == Loc::Poll && self.in_progress_run > 0 && self.in_progress_run < self.max_in_progress {
            return BusReply::Msg(Some(Message::ReportState(own, if cx.chance(1, 2) { State::PageLoadInProgress } else { State::PageShowInProgress })));
        }
        // local echo: the bus hands back exactly what was sent (RS-485 adapters do that)
        if cx.chance(1, 40) {
            if let Some(m) = &self.last_sent {
                cx.fault("echo_reply");
                return BusReply::Msg(Some(m.clone()));
            }
        }
        if cx.chance(self.good_num, 20) {
            // Mostly the reply that leads straight to success; sometimes another reply that the
            // protocol also continues on (failure report => retry, trigger => request, in-progress
            // => poll again, other first-Hello states => reset paths, ShowingPages => Automatic).
            if cx.chance(1, 4) {
                let alt = match self.model.loc {
                    Loc::ResultQuery => Some(match self.model.call {
                        Call::SendPages => State::PixelsFailed,
                        _ => State::ConfigFailed,
                    }),
                    Loc::FinalQuery => Some(State::ShowingPages),
                    Loc::Poll => Some(match (cx.draw(4), &self.model.call) {
                        (0, _) => State::PageLoadInProgress,
                        (1, _) => State::PageShowInProgress,
                        (2, _) => State::ShowingPages,
                        (_, Call::Show) => State::PageLoaded,
                        (_, _) => State::PageShown,
                    }),
                    Loc::Hello1 => Some(if cx.chance(1, 2) { State::ReadyToReset } else { gens::ALL_STATES[cx.draw(13) as usize] }),
                    Loc::CinHello => Some(gens::ALL_STATES[cx.draw(13) as usize]),
                    _ => None,
                };
                if let Some(st) = alt {
                    return BusReply::Msg(Some(Message::ReportState(own, st)));
                }
            }
            return self.model.good_reply();
        }
        // a foreign address: arbitrary or a near miss of the own one mostly; now and then a number that
        // also occurs elsewhere in this conversation (the chunk count, an offset, the operation's wire code)
        let total = self.model.chunk_total() as u16;
        let foreign = |cx: &Cx| {
            if cx.chance(1, 5) {
                let a = Address(*cx.pick(&[total, total.wrapping_mul(16), 16, 1, 0xA1, 0xA2, 0xA6, 0xA7, 0xA9, 0xAA]));
                if a != own {
                    cx.probe("foreign_address_equal_to_a_number_of_the_conversation");
                    return a;
                }
            }
            gens::other_address(cx, &[own])
        };
        let good_state = match self.model.good_reply() {
            BusReply::Msg(Some(Message::ReportState(_, s))) => Some(s),
            _ => None,
        };
        let good_op = match self.model.good_reply() {
            BusReply::Msg(Some(Message::AckOperation(_, o))) => Some(o),
            _ => None,
        };
        let r = match cx.draw(12) {
            0 | 1 => Some(Message::ReportState(own, gens::ALL_STATES[cx.draw(13) as usize])),
            2 => {
                // the state that would be accepted, but from another address
                let s = if cx.chance(1, 2) { good_state.unwrap_or(State::Unconfigured) } else { gens::ALL_STATES[cx.draw(13) as usize] };
                Some(Message::ReportState(foreign(cx), s))
            }
            3 => Some(Message::AckOperation(own, gens::ALL_OPS[cx.draw(6) as usize])),
            4 => {
                let o = if cx.chance(1, 2) { good_op.unwrap_or(Operation::ReceiveConfig) } else { gens::ALL_OPS[cx.draw(6) as usize] };
                Some(Message::AckOperation(foreign(cx), o))
            }
            5 => None,
            6 => return BusReply::Err,
            7 => {
                // controller-side traffic handed back as a "reply": another controller talking to this
                // sign or (half of the time) to another one
                let a = if cx.chance(1, 2) { own } else { foreign(cx) };
                Some(match cx.draw(7) {
                    0 => Message::Goodbye(a),
                    1 => Message::Hello(a),
                    2 => Message::QueryState(a),
                    3 => Message::SendData(flipdot_core::Offset(0), gens::data(cx.bytes(cx.draw(17) as usize))),
                    4 => Message::DataChunksSent(flipdot_core::ChunkCount(cx.draw(4) as u16)),
                    5 => Message::RequestOperation(a, gens::ALL_OPS[cx.draw(6) as usize]),
                    _ => Message::PixelsComplete(a),
                })
            }
            8 => {
                if cx.chance(1, 2) {
                    // a near miss of a frame that belongs here: the reply that would be accepted, or the
                    // request itself, with another message type, an extra byte or a byte missing
                    let base = match (self.model.good_reply(), &self.last_sent) {
                        (BusReply::Msg(Some(m)), _) if cx.chance(2, 3) => Some(m),
                        (_, Some(m)) => Some(m.clone()),
                        _ => None,
                    };
                    if let Some(m) = base {
                        cx.probe("near_miss_frame_as_reply");
                        let f = Frame::from(m);
                        let mut d = f.data().to_vec();
                        let mut ty = f.message_type().0;
                        match cx.draw(3) {
                            0 => ty = cx.draw(8) as u8,
                            1 => d.push(cx.draw(256) as u8),
                            _ => {
                                d.pop();
                            }
                        }
                        let g = Frame::new(f.address(), flipdot_core::MsgType(ty), gens::data(d));
                        return BusReply::Msg(Some(to_static(&Message::from(g))));
                    }
                }
                Some(Message::Unknown(gens::unknown_frame(cx)))
            }
            9 => {
                // failure report (drives the retry logic)
                let s = if cx.chance(1, 2) { State::ConfigFailed } else { State::PixelsFailed };
                Some(Message::ReportState(own, s))
            }
            10 => Some(Message::ReportState(own, *cx.pick(&[State::PageLoadInProgress, State::PageShowInProgress, State::PageLoaded, State::PageShown, State::ShowingPages]))),
            _ => Some(Message::ReportState(own, *cx.pick(&[State::ReadyToReset, State::Unconfigured, State::ConfigReceived, State::PixelsReceived]))),
        };
        BusReply::Msg(r)
    }
}

impl SignBus for AdvBus {
    fn process_message<'a>(&mut self, message: Message<'_>) -> BusResult<'a> {
        let sent = to_static(&message);
        let loc = self.model.loc;
        // Bounded liveness: after 120 turns the adversary only gives protocol-advancing replies,
        // so every documented operation ends well before 400 messages.
        if self.turns.len() >= 400 + 2 * self.max_in_progress as usize {
            if self.judge == Judge::Model {
                self.cx.fail("C10/liveness-call-does-not-end", format!("{:?}: {} messages emitted and the call still has not returned", self.model.call, self.turns.len()));
            } else {
                // termination is C10's business; C11's invariants have been judged on what was said
                self.cx.probe("run_cut_at_message_cap");
                self.cut = true;
            }
            if self.turns.len() >= 8_000 {
                panic!("controller keeps talking after {} bus errors; giving up on this run", self.turns.len() - 400);
            }
            self.turns.push(Turn { sent, reply: BusReply::Err });
            return Err(Box::new(SimBusError("run is over")));
        }
        // 1. what does the documented protocol prescribe here?
        if self.judge == Judge::Model {
            match self.model.expected() {
                None => self.cx.fail(
                    "C10/message-after-end",
                    format!("{:?}: the protocol prescribes that the call is over ({:?}), but the controller sent {}", self.model.call, self.model.outcome, show(&sent)),
                ),
                Some(want) if want != sent => self.cx.fail(
                    format!("C10/wrong-message@{:?}", loc),
                    format!("{:?} at {:?}: the protocol prescribes {}, the controller sent {}", self.model.call, loc, show(&want), show(&sent)),
                ),
                _ => {}
            }
        }
        // 2. the adversary answers
        self.last_sent = Some(sent.clone());
        let mut reply = self.draw_reply();
        let in_progress = matches!(&reply, BusReply::Msg(Some(Message::ReportState(a, State::PageLoadInProgress | State::PageShowInProgress))) if *a == self.addr);
        if in_progress {
            self.in_progress_run += 1;
            if self.in_progress_run > self.max_in_progress {
                reply = self.model.good_reply();
                self.in_progress_run = 0;
            }
            if self.in_progress_run == 201 {
                self.cx.probe("polled_more_than_200_times_in_a_row");
            }
        } else {
            self.in_progress_run = 0;
        }
        self.cx.hash_event("turn", &(stable_hash(&sent), reply_class(&reply, self.addr)));
        self.cx.distinct2(stable_hash(&(loc, reply_class(&reply, self.addr))));
        self.cx.note(|| {
            format!(
                "    [{:?}] {} => {}",
                loc,
                show(&sent),
                match &reply {
                    BusReply::Err => "BUS ERROR".to_string(),
                    BusReply::Msg(m) => show_opt(m),
                }
            )
        });
        if let BusReply::Msg(Some(Message::ReportState(a, _) | Message::AckOperation(a, _))) = &reply {
            if *a != self.addr {
                self.cx.probe(&format!("foreign_reply_at:{:?}", loc));
            }
        }
        // 3. the model follows
        if !self.model.done() {
            self.model.on_reply(&reply);
        }
        self.turns.push(Turn { sent, reply: reply.clone() });
        match reply {
            BusReply::Err => {
                self.cx.fault("bus_error");
                Err(crate::bus::bus_error(&self.cx, "adversarial bus error"))
            }
            BusReply::Msg(m) => Ok(m),
        }
    }
}

fn call_of(op: &Op) -> Call {
    match op {
        Op::Configure => Call::Configure,
        Op::ConfigureIfNeeded => Call::ConfigureIfNeeded,
        Op::SendPages(_) => Call::SendPages,
        Op::Show => Call::Show,
        Op::LoadNext => Call::LoadNext,
        Op::ShutDown => Call::ShutDown,
    }
}

impl Scenario for Adversary {
    fn name(&self) -> &'static str {
        match self.judge {
            Judge::Model => "c10-adversarial-bus",
            Judge::Invariants => "c11-adversarial-bus",
        }
    }
    fn property(&self) -> &'static str {
        match self.judge {
            Judge::Model => "C10",
            Judge::Invariants => "C11",
        }
    }
    fn runs(&self, tier: Tier) -> u64 {
        match tier {
            Tier::Quick => 2_000_000,
            Tier::Thorough => 200_000_000,
        }
    }
    fn describe(&self) -> &'static str {
        "real Sign against an adversarial bus stub: at every step the reply is drawn from the full reply alphabet (13 states x own/foreign address, 6 acks x own/foreign, wrong-operation acks, silence, controller-side messages, unknown frames, bus error), biased per run towards the reply that keeps the protocol going; controller-side traffic (hello, query, request, data, count, complete, goodbye) with the own or a foreign address is part of the alphabet; one caller in four keeps no handle on the bus after Sign::new"
    }

    fn run(&self, cx: &Cx) -> Result<(), Violation> {
        let addr = gens::address(cx);
        let t: SignType = gens::sign_type(cx);
        // 1-3 calls on ONE Sign object over ONE bus object: anything the controller carries
        // from one call into the next is exercised too. Every call is judged on its own.
        let ncalls = 1 + *cx.pick(&[0u64, 0, 1, 2]);
        let good_num = *cx.pick(&[19u64, 16, 10, 20, 18]);
        let dummy = ControllerModel::new(addr, Call::ShutDown, vec![]);
        let max_in_progress = if cx.chance(1, 64) { 200 + cx.draw(400) as u32 } else { 8 };
        let bus = Rc::new(RefCell::new(AdvBus { cx: cx.clone(), addr, model: dummy, judge: self.judge, good_num, turns: Vec::new(), in_progress_run: 0, cut: false, max_in_progress, last_sent: None }));
        let sign = Sign::new(bus.clone(), addr, t);
        // One caller in four hands its only handle on the bus to the controller (as the repository's
        // multi-page example does); the simulator then looks at the bus through a weak handle only.
        let weak = Rc::downgrade(&bus);
        let _kept = if cx.chance(1, 4) {
            cx.probe("caller_keeps_no_handle_on_the_bus");
            None
        } else {
            Some(bus.clone())
        };
        drop(bus);
        cx.set_nontrivial();
        let mut whole: Vec<u64> = Vec::new();
        for k in 0..ncalls {
            let op = match cx.draw(8) {
                0 | 1 => Op::Configure,
                2 | 3 => {
                    if cx.chance(1, 4) {
                        // pages of arbitrary, mixed sizes (the API takes any pages)
                        cx.probe("page_list_of_mixed_sizes");
                        let n = 1 + cx.draw(3);
                        let mut v = Vec::new();
                        for _ in 0..n {
                            let (w, h) = match cx.draw(3) {
                                0 => t.dimensions(),
                                1 => gens::any_sign_type(cx).dimensions(),
                                _ => (*cx.pick(&[12u32, 1, 28, 44, 60, 0]), *cx.pick(&[8u32, 7, 16, 1, 9])),
                            };
                            v.push(gens::page(cx, w, h));
                        }
                        Op::SendPages(v)
                    } else {
                        Op::SendPages(gens::pages(cx, t, 3))
                    }
                }
                4 => Op::ConfigureIfNeeded,
                5 => Op::Show,
                6 => Op::LoadNext,
                _ => Op::ShutDown,
            };
            let items: Vec<Vec<u8>> = match &op {
                Op::Configure | Op::ConfigureIfNeeded => vec![t.to_bytes().to_vec()],
                Op::SendPages(p) => p.iter().map(|p| p.as_bytes().to_vec()).collect(),
                _ => vec![],
            };
            let call = call_of(&op);
            {
                let Some(bus) = weak.upgrade() else {
                    cx.fail("C10/bus-not-kept-alive", format!("before call #{k}: the bus handed to Sign::new no longer exists although the Sign does"));
                    return cx.verdict();
                };
                let mut b = bus.borrow_mut();
                b.model = ControllerModel::new(addr, call.clone(), items);
                b.turns.clear();
                b.in_progress_run = 0;
                b.cut = false;
            }
            cx.event("call", &(k, addr.0, t, op.code(), good_num));
            cx.note(|| format!("call #{k}: controller({:#06x}, {t:?}).{}   [good-reply bias {good_num}/20]", addr.0, op.name()));
            // A third of the page lists are lazy sources that look at the bus each time they are
            // advanced: if the controller still holds the bus then, such a caller would panic in
            // the middle of the operation and the call would end with none of the documented outcomes.
            let out = if matches!(op, Op::SendPages(_)) && self.judge == Judge::Model && cx.chance(1, 3) {
                cx.probe("page_list_that_looks_at_the_bus");
                let b2 = weak.clone();
                let cxp = cx.clone();
                let probe = move || {
                    if b2.upgrade().map(|b| b.try_borrow_mut().is_err()).unwrap_or(false) {
                        cxp.fail("C10/bus-held-while-page-list-is-advanced", "the bus was still mutably borrowed when send_pages asked the page list for its next page; a lazy page source that looks at the bus would panic here and the call would end with no documented outcome".to_string());
                    }
                };
                ops::apply_probed(&sign, &op, &probe)
            } else {
                ops::apply(&sign, &op)
            };
            cx.event("outcome", &out);
            cx.note(|| format!("  -> {out:?}"));
            let Some(bus) = weak.upgrade() else {
                cx.fail("C10/bus-not-kept-alive", format!("call #{k} {call:?} returned {out:?}: the bus handed to Sign::new no longer exists although the Sign does"));
                return cx.verdict();
            };
            let b = bus.borrow();
            cx.probe(&format!("call:{:?}:{:?}", call, out));
            if k > 0 {
                cx.probe("later_call_on_same_sign_object");
            }
            whole.push(stable_hash(&(call.clone(), b.turns.iter().map(|t| (stable_hash(&t.sent), reply_class(&t.reply, addr))).collect::<Vec<_>>())));
            if b.turns.len() >= 10 {
                cx.probe("conversation_ge_10_turns");
            }
            match self.judge {
                Judge::Model => {
                    cx.verdict()?;
                    if !b.model.done() {
                        cx.fail(
                            format!("C10/stopped-early@{:?}", b.model.loc),
                            format!("call #{k} {call:?} returned {out:?} after {} messages, but the protocol prescribes {} next", b.turns.len(), b.model.expected().map(|m| show(&m)).unwrap_or_default()),
                        );
                    } else if b.model.outcome.as_ref() != Some(&out) {
                        cx.fail("C10/wrong-outcome", format!("call #{k} {call:?} returned {out:?}, the protocol prescribes {:?}", b.model.outcome));
                    }
                    if b.model.polls >= 3 {
                        cx.probe("polled_3_or_more_times");
                    }
                }
                Judge::Invariants if b.cut => {}
                Judge::Invariants => {
                    if let Err((class, detail)) = check_conversation(cx, addr, &call, &b.turns, &out) {
                        cx.fail(format!("C11/{class}"), format!("call #{k} {call:?}: {detail}"));
                    }
                }
            }
            cx.verdict()?;
        }
        cx.distinct(stable_hash(&whole));
        cx.verdict()
    }
}

// ---------------------------------------------------------------------------------------------
// C11: invariants over the recorded conversation (independent of ControllerModel)
// ---------------------------------------------------------------------------------------------

fn own_state(r: &BusReply, own: Address) -> Option<State> {
    match r {
        BusReply::Msg(Some(Message::ReportState(a, s))) if *a == own => Some(*s),
        _ => None,
    }
}

fn is_own_ack(r: &BusReply, own: Address, op: Operation) -> bool {
    matches!(r, BusReply::Msg(Some(Message::AckOperation(a, o))) if *a == own && *o == op)
}

const READY: [State; 6] =
    [State::ConfigReceived, State::ShowingPages, State::PageLoaded, State::PageShowInProgress, State::PageShown, State::PageLoadInProgress];

pub fn check_conversation(cx: &Cx, own: Address, call: &Call, turns: &[Turn], out: &Outcome) -> Result<(), (String, String)> {
    let err = |class: &str, d: String| Err((class.to_string(), d));
    let last = turns.len().saturating_sub(1);
    let (succ, failed) = match call {
        Call::SendPages => (State::PixelsReceived, State::PixelsFailed),
        _ => (State::ConfigReceived, State::ConfigFailed),
    };
    let (target, trigger) = match call {
        Call::Show => (State::PageShown, State::PageLoaded),
        _ => (State::PageLoaded, State::PageShown),
    };
    let mut attempts = 0u32;
    let mut last_result: Option<&BusReply> = None;
    for (i, t) in turns.iter().enumerate() {
        // I1: own address on every addressed message
        let a = match &t.sent {
            Message::Hello(a) | Message::QueryState(a) | Message::PixelsComplete(a) | Message::Goodbye(a) | Message::RequestOperation(a, _) | Message::ReportState(a, _) | Message::AckOperation(a, _) => {
                Some(*a)
            }
            _ => None,
        };
        if let Some(a) = a {
            if a != own {
                return err("foreign-address-emitted", format!("message #{i} {} carries {:#06x}, the controller's address is {:#06x}", show(&t.sent), a.0, own.0));
            }
        }
        // I2: a bus error ends everything
        if matches!(t.reply, BusReply::Err) {
            if i != last {
                return err("sent-after-bus-error", format!("message #{} {} was sent after the bus error at #{i}", i + 1, show(&turns[i + 1].sent)));
            }
            if *out != Outcome::Bus {
                return err("bus-error-not-propagated", format!("the bus failed at #{i} but the call returned {out:?}"));
            }
            cx.probe("error_mid_conversation");
            continue;
        }
        let prev = if i > 0 { Some(&turns[i - 1].sent) } else { None };
        // I3: allowed replies by position
        let allowed: Option<bool> = match &t.sent {
            Message::RequestOperation(_, op) => Some(is_own_ack(&t.reply, own, *op)),
            Message::SendData(..) | Message::DataChunksSent(..) | Message::PixelsComplete(..) | Message::Goodbye(..) => Some(matches!(t.reply, BusReply::Msg(None))),
            Message::QueryState(_) => {
                if matches!(prev, Some(Message::DataChunksSent(..))) {
                    last_result = Some(&t.reply);
                    let st = own_state(&t.reply, own);
                    Some(st == Some(succ) || (st == Some(failed) && attempts < 3))
                } else if matches!(call, Call::Show | Call::LoadNext) {
                    let st = own_state(&t.reply, own);
                    Some(matches!(st, Some(s) if s == State::ShowingPages || s == target || s == trigger || s == State::PageLoadInProgress || s == State::PageShowInProgress))
                } else {
                    None // final query of send_pages: anything goes
                }
            }
            Message::Hello(_) => match prev {
                Some(Message::RequestOperation(_, Operation::StartReset)) => Some(own_state(&t.reply, own) == Some(State::ReadyToReset)),
                Some(Message::RequestOperation(_, Operation::FinishReset)) => Some(own_state(&t.reply, own) == Some(State::Unconfigured)),
                _ => None, // first Hello of configure / configure_if_needed: anything goes
            },
            _ => None,
        };
        if let Message::RequestOperation(_, Operation::ReceiveConfig | Operation::ReceivePixels) = &t.sent {
            attempts += 1;
            // I4: bounded, justified retries
            if attempts > 3 {
                return err("more-than-three-attempts", format!("transfer request #{attempts} at message #{i}"));
            }
            if attempts > 1 {
                let justified = i > 0 && matches!(turns[i - 1].sent, Message::QueryState(_)) && own_state(&turns[i - 1].reply, own) == Some(failed);
                if !justified {
                    return err(
                        "unjustified-retry",
                        format!("attempt #{attempts} at message #{i} was not immediately preceded by a query answered with own {failed:?} (previous: {} => {:?})", show(&turns[i - 1].sent), turns[i - 1].reply),
                    );
                }
                cx.probe("retry_seen");
            }
        }
        if allowed == Some(false) {
            if let BusReply::Msg(Some(Message::ReportState(a, _) | Message::AckOperation(a, _))) = &t.reply {
                if *a != own {
                    cx.probe("disallowed_reply_with_foreign_address");
                }
            }
            if i != last {
                return err(
                    "sent-after-disallowed-reply",
                    format!("reply {:?} to #{i} {} is not allowed there, yet message #{} {} followed", t.reply, show(&t.sent), i + 1, show(&turns[i + 1].sent)),
                );
            }
            if *out != Outcome::UnexpectedResponse {
                return err("disallowed-reply-not-reported", format!("reply {:?} to #{i} {} is not allowed there, yet the call returned {out:?}", t.reply, show(&t.sent)));
            }
            if own_state(&t.reply, own) == Some(failed) && attempts == 3 && matches!(t.sent, Message::QueryState(_)) && matches!(prev, Some(Message::DataChunksSent(..))) {
                cx.probe("third_attempt_failed");
            }
        }
    }
    // I6: a foreign address is never treated as the controller's own
    if matches!(call, Call::Configure | Call::ConfigureIfNeeded) {
        // index of the Hello that opens ensure_unconfigured
        let start = match call {
            Call::ConfigureIfNeeded => {
                if turns.len() == 1 && out.is_ok() {
                    let st = own_state(&turns[0].reply, own);
                    if !matches!(st, Some(s) if READY.contains(&s)) {
                        return err("configure-if-needed-trusted-wrong-reply", format!("stopped after Hello => {:?}", turns[0].reply));
                    }
                    cx.probe("configure_if_needed_stopped_early");
                }
                1
            }
            _ => 0,
        };
        if turns.len() > start + 1 {
            let st = own_state(&turns[start].reply, own);
            match &turns[start + 1].sent {
                Message::RequestOperation(_, Operation::FinishReset) if st != Some(State::ReadyToReset) => {
                    return err("finish-reset-without-own-ready-to-reset", format!("FinishReset followed Hello => {:?}", turns[start].reply));
                }
                Message::RequestOperation(_, Operation::ReceiveConfig) if st != Some(State::Unconfigured) => {
                    return err("transfer-without-own-unconfigured", format!("ReceiveConfig followed Hello => {:?}", turns[start].reply));
                }
                _ => {}
            }
        }
    }
    // I5: success only when confirmed
    match (call, out) {
        (Call::Configure, Outcome::Ok) | (Call::SendPages, Outcome::OkStyle(_)) => {
            if last_result.map(|r| own_state(r, own)) != Some(Some(succ)) {
                return err("unconfirmed-success", format!("returned {out:?} but the last concluding query got {:?}", last_result));
            }
        }
        (Call::ConfigureIfNeeded, Outcome::Ok) if turns.len() > 1 => {
            if last_result.map(|r| own_state(r, own)) != Some(Some(succ)) {
                return err("unconfirmed-success", format!("returned {out:?} but the last concluding query got {:?}", last_result));
            }
        }
        _ => {}
    }
    if let (Call::SendPages, Outcome::OkStyle(true)) = (call, out) {
        if own_state(&turns[last].reply, own) != Some(State::ShowingPages) {
            return err("automatic-without-own-showing-pages", format!("returned Automatic on {:?}", turns[last].reply));
        }
    }
    if let (Call::ShutDown, Outcome::Ok) = (call, out) {
        if !(turns.len() == 1 && matches!(turns[0].reply, BusReply::Msg(None))) {
            return err("shut-down-ok-on-reply", format!("{} exchange(s), reply {:?}", turns.len(), turns.first().map(|t| &t.reply)));
        }
    }
    let _ = Loc::Done;
    Ok(())
}
