//! Byte-level seams: a simulated stream (`Read`/`Write`) and a simulated serial device
//! (`Read + Write + SerialDevice`, so the blanket impl makes it a `SerialPort`).

use std::io::{self, Read, Write};
use std::time::Duration;

use serial_core::{BaudRate, CharSize, FlowControl, Parity, SerialDevice, SerialPortSettings, StopBits};

use crate::core::Cx;

// ---------------------------------------------------------------------------------------------
// SimStream
// ---------------------------------------------------------------------------------------------

/// The kind of a hard (non-retryable) I/O failure, drawn from the tape; 0 = the plainest.
pub fn hard_kind(cx: &Cx) -> io::ErrorKind {
    *cx.pick(&[
        io::ErrorKind::Other,
        io::ErrorKind::BrokenPipe,
        io::ErrorKind::TimedOut,
        io::ErrorKind::WouldBlock,
        io::ErrorKind::UnexpectedEof,
        io::ErrorKind::ConnectionReset,
        io::ErrorKind::InvalidInput,
        io::ErrorKind::PermissionDenied,
    ])
}

/// A hard (non-retryable) I/O failure: built from a kind, or -- one time in four -- from a raw OS
/// error number, as real file descriptors report them (`raw_os_error()` is `Some`). EINTR is not
/// among them: an interrupted call is retryable and has its own fault kind.
pub fn hard_error(cx: &Cx, what: &'static str) -> io::Error {
    if cx.chance(1, 4) {
        cx.probe("hard_error_with_os_code");
        // EAGAIN, EIO, ETIMEDOUT, EPIPE, ENODEV, ECONNRESET
        io::Error::from_raw_os_error(*cx.pick(&[11, 5, 110, 32, 19, 104]))
    } else {
        io::Error::new(hard_kind(cx), what)
    }
}

#[derive(Clone, Debug)]
pub enum Frag {
    /// Sizes are drawn from the tape: 1..=min(buf.len(), available).
    Tape,
    /// The k-th non-empty fragment of the stream has the given size (then repeats the last).
    Fixed(Vec<usize>),
    /// Whatever the reader asks for.
    Whole,
}

#[derive(Debug)]
pub struct SimStream {
    pub cx: Cx,
    pub data: Vec<u8>,
    pub pos: usize,
    pub sink: Vec<u8>,
    pub frag: Frag,
    frag_idx: usize,
    frag_left: usize,
    /// Interrupted reads/writes: probability 1/den, 0 = never.
    pub eintr_den: u64,
    eintr_run: u32,
    eintr_left: u32,
    /// Short writes drawn from the tape.
    pub short_writes: bool,
    /// Hard error at this I/O call index (reads and writes counted together).
    pub fail_at: Option<usize>,
    /// `write` returns Ok(0) at this I/O call index.
    pub zero_at: Option<usize>,
    /// Exactly one interrupted call, at this I/O call index.
    pub eintr_at: Option<usize>,
    /// The write at this I/O call index accepts a single byte.
    pub one_byte_at: Option<usize>,
    pub placed_fired: bool,
    pub io_calls: usize,
    pub max_offered: usize,
    pub failed: bool,
    /// Implements `write_vectored` natively (gathering all buffers) instead of std's default.
    pub vectored: bool,
    pub zeroed: bool,
    pub log_calls: bool,
}

impl SimStream {
    pub fn new(cx: &Cx, data: Vec<u8>) -> Self {
        SimStream {
            cx: cx.clone(),
            data,
            pos: 0,
            sink: Vec::new(),
            frag: Frag::Tape,
            frag_idx: 0,
            frag_left: 0,
            eintr_den: 0,
            eintr_run: 0,
            eintr_left: 0,
            short_writes: false,
            fail_at: None,
            zero_at: None,
            eintr_at: None,
            one_byte_at: None,
            placed_fired: false,
            io_calls: 0,
            max_offered: 0,
            failed: false,
            vectored: false,
            zeroed: false,
            log_calls: false,
        }
    }

    fn maybe_eintr(&mut self) -> bool {
        eintr_burst(&self.cx, self.eintr_den, &mut self.eintr_run, &mut self.eintr_left)
    }
}

/// Interrupted calls come in bursts: usually 1-3 in a row, sometimes up to 12, rarely thousands
/// ("however often it reports an interrupted read"). Returns true if this call is interrupted.
pub fn eintr_burst(cx: &Cx, den: u64, run: &mut u32, left: &mut u32) -> bool {
    if *left > 0 {
        *left -= 1;
        *run += 1;
        if *run == 4 {
            cx.probe("eintr_4_or_more_in_a_row");
        }
        if *run == 1025 {
            cx.probe("eintr_more_than_1024_in_a_row");
        }
        cx.fault("eintr");
        return true;
    }
    *run = 0;
    if den > 0 && cx.chance(1, den) {
        // this call is interrupted, and maybe a few / many of the following ones
        *left = match cx.draw(32) {
            0..=19 => 0,
            20..=27 => cx.draw(3) as u32 + 1,
            28..=30 => cx.draw(10) as u32 + 3,
            _ => 1100 + cx.draw(3000) as u32,
        };
        *run = 1;
        cx.fault("eintr");
        return true;
    }
    false
}

impl Read for SimStream {
    fn read(&mut self, buf: &mut [u8]) -> io::Result<usize> {
        let idx = self.io_calls;
        self.io_calls += 1;
        self.max_offered = self.max_offered.max(buf.len());
        if self.fail_at == Some(idx) {
            self.failed = true;
            self.cx.fault("io_error");
            return Err(hard_error(&self.cx, "simulated read failure"));
        }
        if self.eintr_at == Some(idx) {
            self.placed_fired = true;
            self.cx.fault("eintr");
            return Err(io::Error::new(io::ErrorKind::Interrupted, "simulated EINTR (placed)"));
        }
        if self.maybe_eintr() {
            return Err(io::Error::new(io::ErrorKind::Interrupted, "simulated EINTR"));
        }
        let avail = self.data.len() - self.pos;
        if avail == 0 || buf.is_empty() {
            if avail == 0 {
                self.cx.fault("eof");
            }
            return Ok(0);
        }
        let max = avail.min(buf.len());
        let n = match &self.frag {
            Frag::Whole => max,
            Frag::Tape => {
                if max == 1 {
                    1
                } else {
                    let n = 1 + self.cx.draw(max as u64) as usize;
                    if n < max {
                        self.cx.fault("fragment");
                    }
                    n
                }
            }
            Frag::Fixed(sizes) => {
                if self.frag_left == 0 {
                    let k = self.frag_idx.min(sizes.len().saturating_sub(1));
                    self.frag_left = sizes.get(k).copied().unwrap_or(max).max(1);
                    self.frag_idx += 1;
                }
                let n = self.frag_left.min(max);
                self.frag_left -= n;
                n
            }
        };
        if buf.len() > 1 {
            self.cx.probe("reader_offered_gt_1_byte");
        }
        buf[..n].copy_from_slice(&self.data[self.pos..self.pos + n]);
        self.pos += n;
        if self.log_calls {
            self.cx.hash_event("read", &(idx, n));
        }
        Ok(n)
    }

    fn read_vectored(&mut self, bufs: &mut [io::IoSliceMut<'_>]) -> io::Result<usize> {
        if self.vectored {
            return self.scatter(bufs);
        }
        match bufs.iter_mut().find(|b| !b.is_empty()) {
            Some(b) => self.read(b),
            None => self.read(&mut []),
        }
    }
}

impl SimStream {
    /// Native scatter read (when `vectored` is set): one call fills the buffers one after the
    /// other, as files, sockets, `&[u8]` and `Cursor` do. Otherwise the standard behaviour (only
    /// the first non-empty buffer is used), which is what serial ports have.
    fn scatter(&mut self, bufs: &mut [io::IoSliceMut<'_>]) -> io::Result<usize> {
        let total: usize = bufs.iter().map(|b| b.len()).sum();
        let mut tmp = vec![0u8; total];
        let n = self.read(&mut tmp)?;
        let mut done = 0;
        for b in bufs.iter_mut() {
            if done >= n {
                break;
            }
            let k = b.len().min(n - done);
            b[..k].copy_from_slice(&tmp[done..done + k]);
            done += k;
        }
        if bufs.len() > 1 {
            self.cx.probe("native_vectored_read");
        }
        Ok(n)
    }
}

impl Write for SimStream {
    fn write(&mut self, buf: &[u8]) -> io::Result<usize> {
        let idx = self.io_calls;
        self.io_calls += 1;
        if self.fail_at == Some(idx) {
            self.failed = true;
            self.cx.fault("io_error");
            return Err(hard_error(&self.cx, "simulated write failure"));
        }
        if self.zero_at == Some(idx) {
            self.cx.fault("write_zero");
            self.zeroed = true;
            return Ok(0);
        }
        if self.eintr_at == Some(idx) {
            self.placed_fired = true;
            self.cx.fault("eintr");
            return Err(io::Error::new(io::ErrorKind::Interrupted, "simulated EINTR (placed)"));
        }
        if self.maybe_eintr() {
            return Err(io::Error::new(io::ErrorKind::Interrupted, "simulated EINTR"));
        }
        if buf.is_empty() {
            return Ok(0);
        }
        let n = if self.one_byte_at == Some(idx) {
            self.placed_fired = true;
            self.cx.fault("short_write");
            1
        } else if self.short_writes {
            let cut = self.cx.draw(buf.len() as u64) as usize; // 0 = everything
            if cut > 0 {
                self.cx.fault("short_write");
                if buf.len() - cut == 1 {
                    self.cx.probe("short_write_1_byte");
                }
            }
            buf.len() - cut
        } else {
            buf.len()
        };
        self.sink.extend_from_slice(&buf[..n]);
        if self.log_calls {
            self.cx.hash_event("write", &(idx, n));
        }
        Ok(n)
    }

    /// A sink with native gather writes (when `vectored` is set): takes a drawn number of bytes
    /// across the buffers, so a short write may end anywhere, also between two buffers' bytes.
    /// Otherwise the standard behaviour: the first non-empty buffer goes through `write`.
    fn write_vectored(&mut self, bufs: &[io::IoSlice<'_>]) -> io::Result<usize> {
        if !self.vectored {
            let first = bufs.iter().find(|b| !b.is_empty()).map(|b| &**b).unwrap_or(&[]);
            return self.write(first);
        }
        self.cx.probe("native_vectored_write");
        let all: Vec<u8> = bufs.iter().flat_map(|b| b.iter().copied()).collect();
        self.write(&all)
    }

    /// A flush is an I/O call like any other and can fail hard at the placed index (the unchanged
    /// tree never flushes). Interrupted flushes are not simulated: the property does not say
    /// whether an interrupted flush after a complete delivery may be reported.
    fn flush(&mut self) -> io::Result<()> {
        let idx = self.io_calls;
        self.io_calls += 1;
        self.cx.probe("sink_flush_called");
        if self.fail_at == Some(idx) {
            self.failed = true;
            self.cx.fault("io_error");
            return Err(hard_error(&self.cx, "simulated flush failure"));
        }
        Ok(())
    }
}

// ---------------------------------------------------------------------------------------------
// Serial device
// ---------------------------------------------------------------------------------------------

#[derive(Clone, Copy, Debug, PartialEq, Eq, Hash)]
pub struct SimSettings {
    pub baud: BaudRate2,
    pub char_size: u8,
    pub parity: u8,
    pub stop_bits: u8,
    pub flow: u8,
    /// `set_baud_rate` fails on this settings object.
    pub fail_set_baud: bool,
    pub fail_kind: u8,
    /// The device cannot report its current speed (`baud_rate()` is None), e.g. a termios port
    /// whose input and output speeds differ. The speed itself is still whatever `baud` says.
    pub baud_unreported: bool,
    /// Framing values the device holds but cannot report (mark / space parity, 1.5 stop bits, 4-bit
    /// bytes, a vendor flow-control mode): bit 0 character size, 1 parity, 2 stop bits, 3 flow control.
    /// The getter returns `None`; the setter replaces the value and clears the bit.
    pub unreported: u8,
}

/// Hashable mirror of `serial_core::BaudRate`.
#[derive(Clone, Copy, Debug, PartialEq, Eq, Hash)]
pub struct BaudRate2(pub usize);

pub const CHAR_SIZES: [CharSize; 4] = [CharSize::Bits5, CharSize::Bits6, CharSize::Bits7, CharSize::Bits8];
pub const PARITIES: [Parity; 3] = [Parity::ParityNone, Parity::ParityOdd, Parity::ParityEven];
pub const STOP_BITS: [StopBits; 2] = [StopBits::Stop1, StopBits::Stop2];
pub const FLOWS: [FlowControl; 3] = [FlowControl::FlowNone, FlowControl::FlowSoftware, FlowControl::FlowHardware];

impl SimSettings {
    pub fn is_19200_8n1_noflow(&self) -> bool {
        self.baud.0 == 19200 && self.char_size == 3 && self.parity == 0 && self.stop_bits == 0 && self.flow == 0 && self.unreported == 0
    }
}

impl SerialPortSettings for SimSettings {
    fn baud_rate(&self) -> Option<BaudRate> {
        if self.baud_unreported { None } else { Some(BaudRate::from_speed(self.baud.0)) }
    }
    fn char_size(&self) -> Option<CharSize> {
        if self.unreported & 1 != 0 { None } else { Some(CHAR_SIZES[self.char_size as usize]) }
    }
    fn parity(&self) -> Option<Parity> {
        if self.unreported & 2 != 0 { None } else { Some(PARITIES[self.parity as usize]) }
    }
    fn stop_bits(&self) -> Option<StopBits> {
        if self.unreported & 4 != 0 { None } else { Some(STOP_BITS[self.stop_bits as usize]) }
    }
    fn flow_control(&self) -> Option<FlowControl> {
        if self.unreported & 8 != 0 { None } else { Some(FLOWS[self.flow as usize]) }
    }
    fn set_baud_rate(&mut self, baud_rate: BaudRate) -> serial_core::Result<()> {
        if self.fail_set_baud {
            return Err(serial_core::Error::new(ERR_KINDS[self.fail_kind as usize], "simulated: baud rate not supported"));
        }
        self.baud = BaudRate2(baud_rate.speed());
        self.baud_unreported = false;
        Ok(())
    }
    fn set_char_size(&mut self, char_size: CharSize) {
        self.char_size = CHAR_SIZES.iter().position(|c| *c == char_size).unwrap() as u8;
        self.unreported &= !1;
    }
    fn set_parity(&mut self, parity: Parity) {
        self.parity = PARITIES.iter().position(|c| *c == parity).unwrap() as u8;
        self.unreported &= !2;
    }
    fn set_stop_bits(&mut self, stop_bits: StopBits) {
        self.stop_bits = STOP_BITS.iter().position(|c| *c == stop_bits).unwrap() as u8;
        self.unreported &= !4;
    }
    fn set_flow_control(&mut self, flow_control: FlowControl) {
        self.flow = FLOWS.iter().position(|c| *c == flow_control).unwrap() as u8;
        self.unreported &= !8;
    }
}

#[derive(Clone, Copy, Debug, PartialEq, Eq, Hash)]
pub enum CfgFail {
    None,
    ReadSettings,
    SetBaudRate,
    WriteSettings,
    SetTimeout,
}

#[derive(Clone, Copy, Debug, PartialEq, Eq, Hash)]
pub enum CfgCall {
    ReadSettings,
    WriteSettings(SimSettings),
    SetTimeout(u128),
}

#[derive(Clone, Debug)]
pub struct Device {
    pub settings: SimSettings,
    pub timeout: Duration,
    pub fail: CfgFail,
    /// Which error the failing call reports (index into `ERR_KINDS`).
    pub fail_kind: usize,
    /// How many more times the failing call refuses (`u32::MAX` = every time; 1 = a transient refusal).
    pub fail_budget: std::cell::Cell<u32>,
    pub calls: Vec<CfgCall>,
}

impl Device {
    pub fn new(settings: SimSettings) -> Self {
        Device { settings, timeout: Duration::from_millis(1), fail: CfgFail::None, fail_kind: 0, fail_budget: std::cell::Cell::new(u32::MAX), calls: Vec::new() }
    }
    /// Does the configuration call `at` refuse now? (Consumes one unit of a finite budget.)
    fn fires(&self, at: CfgFail) -> bool {
        if self.fail != at {
            return false;
        }
        match self.fail_budget.get() {
            0 => false,
            u32::MAX => true,
            n => {
                self.fail_budget.set(n - 1);
                true
            }
        }
    }
    pub fn default_odd() -> Self {
        Device::new(SimSettings { baud: BaudRate2(110), char_size: 2, parity: 2, stop_bits: 1, flow: 1, fail_set_baud: false, fail_kind: 0, baud_unreported: false, unreported: 0 })
    }
}

/// Error kinds a refusing device may report.
pub const ERR_KINDS: [serial_core::ErrorKind; 9] = [
    serial_core::ErrorKind::Io(io::ErrorKind::Interrupted),
    serial_core::ErrorKind::NoDevice,
    serial_core::ErrorKind::InvalidInput,
    serial_core::ErrorKind::Io(io::ErrorKind::PermissionDenied),
    serial_core::ErrorKind::Io(io::ErrorKind::Unsupported),
    serial_core::ErrorKind::Io(io::ErrorKind::TimedOut),
    serial_core::ErrorKind::Io(io::ErrorKind::Other),
    // I/O kinds that serial-core's own conversions between `Error` and `io::Error` fold into the
    // two kinds above: an error that takes a round trip through `io::Error` comes back changed
    serial_core::ErrorKind::Io(io::ErrorKind::NotFound),
    serial_core::ErrorKind::Io(io::ErrorKind::InvalidInput),
];

/// The byte-moving half of a simulated port.
pub trait Wire {
    fn wire_read(&mut self, buf: &mut [u8], timeout: Duration) -> io::Result<usize>;
    fn wire_write(&mut self, buf: &[u8]) -> io::Result<usize>;
    /// `Write::flush` of the port. The unchanged tree never flushes; a tree that does meets a port
    /// whose flush can fail like any other call.
    fn wire_flush(&mut self) -> io::Result<()> {
        Ok(())
    }
}

#[derive(Debug)]
pub struct SimPort<W: Wire> {
    pub wire: W,
    pub dev: Device,
}

impl<W: Wire> SimPort<W> {
    pub fn new(wire: W, dev: Device) -> Self {
        SimPort { wire, dev }
    }
}

impl<W: Wire> Read for SimPort<W> {
    fn read(&mut self, buf: &mut [u8]) -> io::Result<usize> {
        let t = self.dev.timeout;
        self.wire.wire_read(buf, t)
    }
}

impl<W: Wire> Write for SimPort<W> {
    fn write(&mut self, buf: &[u8]) -> io::Result<usize> {
        self.wire.wire_write(buf)
    }
    /// A port with native gather writes (as a tty or a socket has): the buffers are offered to the
    /// wire as one piece, so a short write may end anywhere, also between two buffers' bytes. The
    /// unchanged tree never writes gathered; a tree that does must get its continuation right.
    fn write_vectored(&mut self, bufs: &[io::IoSlice<'_>]) -> io::Result<usize> {
        let all: Vec<u8> = bufs.iter().flat_map(|b| b.iter().copied()).collect();
        self.wire.wire_write(&all)
    }
    fn flush(&mut self) -> io::Result<()> {
        self.wire.wire_flush()
    }
}

impl<W: Wire> SerialDevice for SimPort<W> {
    type Settings = SimSettings;

    fn read_settings(&self) -> serial_core::Result<SimSettings> {
        if self.dev.fires(CfgFail::ReadSettings) {
            return Err(serial_core::Error::new(ERR_KINDS[self.dev.fail_kind], "simulated: read_settings failed"));
        }
        let mut s = self.dev.settings;
        s.fail_set_baud = self.dev.fires(CfgFail::SetBaudRate);
        s.fail_kind = self.dev.fail_kind as u8;
        Ok(s)
    }

    fn write_settings(&mut self, settings: &SimSettings) -> serial_core::Result<()> {
        if self.dev.fires(CfgFail::WriteSettings) {
            return Err(serial_core::Error::new(ERR_KINDS[self.dev.fail_kind], "simulated: write_settings failed"));
        }
        let mut s = *settings;
        s.fail_set_baud = false;
        s.fail_kind = 0;
        self.dev.calls.push(CfgCall::WriteSettings(s));
        self.dev.settings = s;
        Ok(())
    }

    fn timeout(&self) -> Duration {
        self.dev.timeout
    }

    fn set_timeout(&mut self, timeout: Duration) -> serial_core::Result<()> {
        if self.dev.fires(CfgFail::SetTimeout) {
            return Err(serial_core::Error::new(ERR_KINDS[self.dev.fail_kind], "simulated: set_timeout failed"));
        }
        self.dev.calls.push(CfgCall::SetTimeout(timeout.as_nanos()));
        self.dev.timeout = timeout;
        Ok(())
    }

    fn set_rts(&mut self, _: bool) -> serial_core::Result<()> {
        Ok(())
    }
    fn set_dtr(&mut self, _: bool) -> serial_core::Result<()> {
        Ok(())
    }
    fn read_cts(&mut self) -> serial_core::Result<bool> {
        Ok(true)
    }
    fn read_dsr(&mut self) -> serial_core::Result<bool> {
        Ok(true)
    }
    fn read_ri(&mut self) -> serial_core::Result<bool> {
        Ok(false)
    }
    fn read_cd(&mut self) -> serial_core::Result<bool> {
        Ok(true)
    }
}

// ---------------------------------------------------------------------------------------------
// ScriptWire: a port whose far end is a script (C16, C18)
// ---------------------------------------------------------------------------------------------

#[derive(Clone, Debug, PartialEq, Eq)]
pub enum PortOp {
    Write { start_ns: u64, end_ns: u64, bytes: Vec<u8>, result: Result<usize, io::ErrorKind> },
    Read { start_ns: u64, end_ns: u64, bytes: Vec<u8>, result: Result<usize, io::ErrorKind> },
}

/// Shared simulated clock (nanoseconds). Advanced by the sleep seam and by the simulator.
#[derive(Clone, Debug, Default)]
pub struct SimClock(pub std::sync::Arc<std::sync::atomic::AtomicU64>);

impl SimClock {
    pub fn now(&self) -> u64 {
        self.0.load(std::sync::atomic::Ordering::SeqCst)
    }
    pub fn advance(&self, ns: u64) {
        self.0.fetch_add(ns, std::sync::atomic::Ordering::SeqCst);
    }
}

#[derive(Debug)]
pub struct ScriptWire {
    pub cx: Cx,
    pub clock: SimClock,
    /// Bytes the far end will deliver.
    pub incoming: Vec<u8>,
    pub pos: usize,
    /// What happens when `incoming` is exhausted: timeout error (true) or EOF (false).
    pub timeout_when_empty: bool,
    pub ops: Vec<PortOp>,
    pub written: Vec<u8>,
    pub frag: bool,
    pub eintr_den: u64,
    eintr_run: u32,
    eintr_left: u32,
    pub short_writes: bool,
    /// Hard failure at this port operation index.
    pub fail_at: Option<usize>,
    pub op_index: usize,
    /// Real instants of every op start/end (C18 measures real elapsed time too).
    pub real: Vec<(std::time::Instant, std::time::Instant)>,
    /// Real-time latency of the far end: the next successful read first sleeps this long (once).
    /// Needed because code under test may consult the real monotonic clock directly.
    pub real_delay_next_read: Option<Duration>,
    /// Simulated latency added to the clock by every successful read.
    pub sim_read_latency_ns: u64,
    /// The next write blocks for this long in REAL time (a UART draining its FIFO), once.
    pub real_delay_next_write: Option<Duration>,
    /// The write at this port operation index accepts nothing (`Ok(0)` for a non-empty buffer).
    pub zero_at: Option<usize>,
    pub zero_fired: bool,
    /// The k-th `flush` call (counted from 0) fails with this kind, once.
    pub flush_fail_at: Option<(usize, io::ErrorKind)>,
    pub flushes: usize,
    pub flush_failed: bool,
}

/// A `ScriptWire` that stays reachable after the port has been moved into the code under test.
#[derive(Clone, Debug)]
pub struct SharedWire(pub std::sync::Arc<std::sync::Mutex<ScriptWire>>);

impl SharedWire {
    pub fn new(w: ScriptWire) -> Self {
        SharedWire(std::sync::Arc::new(std::sync::Mutex::new(w)))
    }
    pub fn lock(&self) -> std::sync::MutexGuard<'_, ScriptWire> {
        match self.0.lock() {
            Ok(g) => g,
            Err(p) => p.into_inner(),
        }
    }
}

impl Wire for SharedWire {
    fn wire_read(&mut self, buf: &mut [u8], timeout: Duration) -> io::Result<usize> {
        self.lock().wire_read(buf, timeout)
    }
    fn wire_write(&mut self, buf: &[u8]) -> io::Result<usize> {
        self.lock().wire_write(buf)
    }
    fn wire_flush(&mut self) -> io::Result<()> {
        self.lock().wire_flush()
    }
}

impl ScriptWire {
    pub fn new(cx: &Cx, clock: SimClock, incoming: Vec<u8>) -> Self {
        ScriptWire {
            cx: cx.clone(),
            clock,
            incoming,
            pos: 0,
            timeout_when_empty: true,
            ops: Vec::new(),
            written: Vec::new(),
            frag: false,
            eintr_den: 0,
            eintr_run: 0,
            eintr_left: 0,
            short_writes: false,
            fail_at: None,
            op_index: 0,
            real: Vec::new(),
            real_delay_next_read: None,
            sim_read_latency_ns: 0,
            real_delay_next_write: None,
            zero_at: None,
            zero_fired: false,
            flush_fail_at: None,
            flushes: 0,
            flush_failed: false,
        }
    }

    fn maybe_eintr(&mut self) -> bool {
        eintr_burst(&self.cx, self.eintr_den, &mut self.eintr_run, &mut self.eintr_left)
    }
}

impl Wire for ScriptWire {
    fn wire_read(&mut self, buf: &mut [u8], timeout: Duration) -> io::Result<usize> {
        let t0 = std::time::Instant::now();
        let start_ns = self.clock.now();
        let idx = self.op_index;
        self.op_index += 1;
        let res: io::Result<usize> = if self.fail_at == Some(idx) {
            self.cx.fault("io_error");
            Err(hard_error(&self.cx, "simulated port read failure"))
        } else if self.maybe_eintr() {
            Err(io::Error::new(io::ErrorKind::Interrupted, "simulated EINTR"))
        } else {
            let avail = self.incoming.len() - self.pos;
            if avail == 0 {
                if self.timeout_when_empty {
                    self.clock.advance(timeout.as_nanos() as u64);
                    self.cx.fault("timeout");
                    Err(io::Error::new(io::ErrorKind::TimedOut, "simulated read timeout"))
                } else {
                    self.cx.fault("eof");
                    Ok(0)
                }
            } else {
                let max = avail.min(buf.len());
                if u128::from(self.sim_read_latency_ns) > timeout.as_nanos() {
                    // the far end needs longer for a byte than the port is willing to wait (a read
                    // timeout shorter than the line's latency: nothing arrives in time)
                    self.clock.advance(timeout.as_nanos() as u64);
                    self.cx.fault("timeout");
                    self.cx.probe("read_timeout_shorter_than_line_latency");
                    let res: io::Result<usize> = Err(io::Error::new(io::ErrorKind::TimedOut, "simulated read timeout (latency)"));
                    self.ops.push(PortOp::Read { start_ns, end_ns: self.clock.now(), bytes: vec![], result: Err(io::ErrorKind::TimedOut) });
                    self.real.push((t0, std::time::Instant::now()));
                    return res;
                }
                let n = if self.frag && max > 1 { 1 + self.cx.draw(max as u64) as usize } else { max };
                if buf.len() > 1 {
                    self.cx.probe("reader_offered_gt_1_byte");
                }
                if let Some(d) = self.real_delay_next_read.take() {
                    std::thread::sleep(d);
                }
                self.clock.advance(self.sim_read_latency_ns);
                buf[..n].copy_from_slice(&self.incoming[self.pos..self.pos + n]);
                self.pos += n;
                Ok(n)
            }
        };
        let bytes = match &res {
            Ok(n) => buf[..*n].to_vec(),
            Err(_) => vec![],
        };
        self.ops.push(PortOp::Read { start_ns, end_ns: self.clock.now(), bytes, result: res.as_ref().map(|n| *n).map_err(|e| e.kind()) });
        self.real.push((t0, std::time::Instant::now()));
        res
    }

    fn wire_write(&mut self, buf: &[u8]) -> io::Result<usize> {
        let t0 = std::time::Instant::now();
        let start_ns = self.clock.now();
        let idx = self.op_index;
        self.op_index += 1;
        let res: io::Result<usize> = if self.fail_at == Some(idx) {
            self.cx.fault("io_error");
            Err(hard_error(&self.cx, "simulated port write failure"))
        } else if self.maybe_eintr() {
            Err(io::Error::new(io::ErrorKind::Interrupted, "simulated EINTR"))
        } else if buf.is_empty() {
            Ok(0)
        } else if self.zero_at == Some(idx) {
            self.cx.fault("write_zero");
            self.zero_fired = true;
            Ok(0)
        } else {
            let n = if self.short_writes {
                let cut = self.cx.draw(buf.len() as u64) as usize;
                if cut > 0 {
                    self.cx.fault("short_write");
                }
                buf.len() - cut
            } else {
                buf.len()
            };
            if let Some(d) = self.real_delay_next_write.take() {
                std::thread::sleep(d);
            }
            self.written.extend_from_slice(&buf[..n]);
            Ok(n)
        };
        let bytes = match &res {
            Ok(n) => buf[..*n].to_vec(),
            Err(_) => vec![],
        };
        self.ops.push(PortOp::Write { start_ns, end_ns: self.clock.now(), bytes, result: res.as_ref().map(|n| *n).map_err(|e| e.kind()) });
        self.real.push((t0, std::time::Instant::now()));
        res
    }

    fn wire_flush(&mut self) -> io::Result<()> {
        let k = self.flushes;
        self.flushes += 1;
        self.cx.probe("port_flush_called");
        match self.flush_fail_at {
            Some((at, kind)) if at == k => {
                self.flush_failed = true;
                self.cx.fault("flush_error");
                Err(io::Error::new(kind, "simulated port flush failure"))
            }
            _ => Ok(()),
        }
    }
}

// ---------------------------------------------------------------------------------------------
// PipeWire: one end of a simulated full-duplex serial line between two scheduled nodes (C17)
// ---------------------------------------------------------------------------------------------

#[derive(Debug)]
pub struct PipeWire {
    pub cx: Cx,
    pub sched: crate::sched::Sched,
    pub me: usize,
    pub rx: usize,
    pub tx: usize,
    pub frag: bool,
    pub eintr_den: u64,
    pub eintr_run: u32,
    pub eintr_left: u32,
    pub short_writes: bool,
}

impl PipeWire {
    fn maybe_eintr(&mut self) -> bool {
        eintr_burst(&self.cx, self.eintr_den, &mut self.eintr_run, &mut self.eintr_left)
    }
}

impl Wire for PipeWire {
    fn wire_read(&mut self, buf: &mut [u8], timeout: Duration) -> io::Result<usize> {
        if self.maybe_eintr() {
            return Err(io::Error::new(io::ErrorKind::Interrupted, "simulated EINTR"));
        }
        if buf.len() > 1 {
            self.cx.probe("reader_offered_gt_1_byte");
        }
        let r = self.sched.pipe_read(self.me, self.rx, buf, timeout, self.frag);
        if let Err(e) = &r {
            if e.kind() == io::ErrorKind::TimedOut {
                self.cx.fault("timeout");
            }
        }
        r
    }

    fn wire_write(&mut self, buf: &[u8]) -> io::Result<usize> {
        if self.maybe_eintr() {
            return Err(io::Error::new(io::ErrorKind::Interrupted, "simulated EINTR"));
        }
        if buf.is_empty() {
            return Ok(0);
        }
        let n = if self.short_writes {
            let cut = self.cx.draw(buf.len() as u64) as usize;
            if cut > 0 {
                self.cx.fault("short_write");
            }
            buf.len() - cut
        } else {
            buf.len()
        };
        self.sched.pipe_write(self.me, self.tx, &buf[..n])
    }
}
