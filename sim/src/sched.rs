//! Seeded baton-passing scheduler: every node is a real OS thread, exactly one holds the baton,
//! and the tape decides at every yield point who gets it next. Simulated time advances only when
//! nobody can run (jump to the earliest deadline) or through explicit sleeps.

use std::collections::VecDeque;
use std::io;
use std::sync::{Arc, Condvar, Mutex, MutexGuard};
use std::time::Duration;

use crate::core::{catch, Cx, PanicInfo};

#[derive(Clone, Copy, Debug, PartialEq, Eq)]
enum TaskSt {
    NotStarted,
    Runnable,
    BlockedRead { pipe: usize, deadline: u64 },
    Sleeping { until: u64 },
    WaitQuiescent,
    Done,
}

#[derive(Debug, Default)]
pub struct Pipe {
    pub buf: VecDeque<u8>,
    pub closed: bool,
    pub total_written: u64,
    pub total_read: u64,
    pub max_backlog: usize,
}

#[derive(Debug)]
struct St {
    current: Option<usize>,
    tasks: Vec<TaskSt>,
    clock_ns: u64,
    pipes: Vec<Pipe>,
    /// voluntary switch probability is 1/switch_den (0 = never)
    switch_den: u64,
    steps: u64,
    step_cap: u64,
    stalled: Option<&'static str>,
    switches: u64,
    sched_hash: u64,
    all_done: bool,
    /// per-byte line time in ns (0 = off)
    byte_ns: u64,
    timeouts: u64,
}

#[derive(Debug)]
struct Inner {
    m: Mutex<St>,
    cvs: Vec<Condvar>,
    main_cv: Condvar,
    cx: Cx,
}

#[derive(Clone, Debug)]
pub struct Sched(Arc<Inner>);

#[derive(Debug)]
pub struct SchedReport {
    pub clock_ns: u64,
    pub switches: u64,
    pub sched_hash: u64,
    pub stalled: Option<&'static str>,
    pub steps: u64,
    pub timeouts: u64,
    pub max_backlog: Vec<usize>,
}

impl Sched {
    pub fn new(cx: &Cx, ntasks: usize, npipes: usize, switch_den: u64, byte_ns: u64) -> Self {
        let st = St {
            current: None,
            tasks: vec![TaskSt::NotStarted; ntasks],
            clock_ns: 0,
            pipes: (0..npipes).map(|_| Pipe::default()).collect(),
            switch_den,
            steps: 0,
            step_cap: 200_000,
            stalled: None,
            switches: 0,
            sched_hash: 0xcbf2_9ce4_8422_2325,
            all_done: false,
            byte_ns,
            timeouts: 0,
        };
        Sched(Arc::new(Inner { m: Mutex::new(st), cvs: (0..ntasks).map(|_| Condvar::new()).collect(), main_cv: Condvar::new(), cx: cx.clone() }))
    }

    fn lock(&self) -> MutexGuard<'_, St> {
        match self.0.m.lock() {
            Ok(g) => g,
            Err(p) => p.into_inner(),
        }
    }

    pub fn now(&self) -> u64 {
        self.lock().clock_ns
    }

    /// Picks who runs next and hands the baton over; returns when `me` holds it again.
    /// `me` must already have recorded its own state (Runnable, blocked, ...).
    fn reschedule<'a>(&'a self, mut g: MutexGuard<'a, St>, me: usize) -> MutexGuard<'a, St> {
        let cx = &self.0.cx;
        loop {
            // wake sleepers whose time has come
            let now = g.clock_ns;
            for t in g.tasks.iter_mut() {
                if let TaskSt::Sleeping { until } = *t {
                    if until <= now {
                        *t = TaskSt::Runnable;
                    }
                }
            }
            let runnable: Vec<usize> = (0..g.tasks.len()).filter(|i| g.tasks[*i] == TaskSt::Runnable).collect();
            let next = if !runnable.is_empty() {
                if runnable.len() == 1 {
                    runnable[0]
                } else if runnable.contains(&me) {
                    // the tape decides; 0 keeps the same task running
                    let k = cx.draw(runnable.len() as u64) as usize;
                    if k == 0 {
                        me
                    } else {
                        let others: Vec<usize> = runnable.iter().copied().filter(|i| *i != me).collect();
                        others[(k - 1) % others.len()]
                    }
                } else {
                    runnable[cx.draw(runnable.len() as u64) as usize]
                }
            } else if let Some(q) = (0..g.tasks.len()).find(|i| g.tasks[*i] == TaskSt::WaitQuiescent) {
                g.tasks[q] = TaskSt::Runnable;
                q
            } else {
                // nobody can run: jump the clock to the earliest deadline / wake-up
                let mut best: Option<(u64, usize)> = None;
                for (i, t) in g.tasks.iter().enumerate() {
                    let when = match t {
                        TaskSt::BlockedRead { deadline, .. } => Some(*deadline),
                        TaskSt::Sleeping { until } => Some(*until),
                        _ => None,
                    };
                    if let Some(w) = when {
                        if best.map(|b| w < b.0).unwrap_or(true) {
                            best = Some((w, i));
                        }
                    }
                }
                match best {
                    Some((w, i)) => {
                        if w > g.clock_ns {
                            g.clock_ns = w;
                        }
                        if let TaskSt::BlockedRead { .. } = g.tasks[i] {
                            g.timeouts += 1;
                        }
                        g.tasks[i] = TaskSt::Runnable;
                        i
                    }
                    None => {
                        if g.tasks.iter().all(|t| *t == TaskSt::Done) {
                            g.all_done = true;
                            g.current = None;
                            self.0.main_cv.notify_all();
                            return g;
                        }
                        // deadlock: everything blocked without a deadline
                        g.stalled = Some("deadlock");
                        for t in g.tasks.iter_mut() {
                            if *t != TaskSt::Done {
                                *t = TaskSt::Runnable;
                            }
                        }
                        continue;
                    }
                }
            };
            if next != me {
                g.switches += 1;
                // fingerprint of the interleaving: who got the baton and at which scheduler step
                g.sched_hash = (g.sched_hash ^ (next as u64 + 1) ^ (g.steps << 8)).wrapping_mul(0x0000_0100_0000_01B3);
            }
            g.current = Some(next);
            if next == me {
                return g;
            }
            self.0.cvs[next].notify_one();
            if g.tasks[me] == TaskSt::Done {
                return g;
            }
            while g.current != Some(me) && g.stalled != Some("watchdog") {
                g = match self.0.cvs[me].wait(g) {
                    Ok(g) => g,
                    Err(p) => p.into_inner(),
                };
            }
            return g;
        }
    }

    fn count_step<'a>(&'a self, g: &mut MutexGuard<'a, St>) -> bool {
        g.steps += 1;
        if g.steps > g.step_cap && g.stalled.is_none() {
            g.stalled = Some("step-cap");
        }
        g.stalled.is_some()
    }

    /// Voluntary yield point.
    pub fn yield_point(&self, me: usize) {
        let mut g = self.lock();
        self.count_step(&mut g);
        let den = g.switch_den;
        let others = (0..g.tasks.len()).any(|i| i != me && g.tasks[i] == TaskSt::Runnable);
        if den == 0 || !others {
            return;
        }
        if self.0.cx.chance(1, den) {
            let _g = self.reschedule(g, me);
        }
    }

    pub fn sleep(&self, me: usize, d: Duration) {
        let mut g = self.lock();
        self.count_step(&mut g);
        let until = g.clock_ns + d.as_nanos() as u64;
        g.tasks[me] = TaskSt::Sleeping { until };
        let mut g = self.reschedule(g, me);
        g.tasks[me] = TaskSt::Runnable;
    }

    /// Blocks until no other task can run (all others blocked on empty pipes / sleeping).
    pub fn wait_quiescent(&self, me: usize) {
        let mut g = self.lock();
        self.count_step(&mut g);
        g.tasks[me] = TaskSt::WaitQuiescent;
        let mut g = self.reschedule(g, me);
        g.tasks[me] = TaskSt::Runnable;
    }

    pub fn pipe_write(&self, me: usize, pipe: usize, bytes: &[u8]) -> io::Result<usize> {
        let mut g = self.lock();
        if self.count_step(&mut g) {
            return Err(io::Error::new(io::ErrorKind::BrokenPipe, "simulation stalled"));
        }
        let byte_ns = g.byte_ns;
        g.clock_ns += byte_ns * bytes.len() as u64;
        let p = &mut g.pipes[pipe];
        p.buf.extend(bytes.iter().copied());
        p.total_written += bytes.len() as u64;
        p.max_backlog = p.max_backlog.max(p.buf.len());
        for t in g.tasks.iter_mut() {
            if let TaskSt::BlockedRead { pipe: bp, .. } = *t {
                if bp == pipe {
                    *t = TaskSt::Runnable;
                }
            }
        }
        drop(g);
        self.yield_point(me);
        Ok(bytes.len())
    }

    /// Reads up to `buf.len()` bytes; `take` decides how many of the available ones are handed out.
    pub fn pipe_read(&self, me: usize, pipe: usize, buf: &mut [u8], timeout: Duration, frag: bool) -> io::Result<usize> {
        let mut g = self.lock();
        if self.count_step(&mut g) {
            return Err(io::Error::new(io::ErrorKind::BrokenPipe, "simulation stalled"));
        }
        if g.pipes[pipe].buf.is_empty() && !g.pipes[pipe].closed {
            let deadline = g.clock_ns + timeout.as_nanos() as u64;
            g.tasks[me] = TaskSt::BlockedRead { pipe, deadline };
            g = self.reschedule(g, me);
            g.tasks[me] = TaskSt::Runnable;
            if g.stalled.is_some() {
                return Err(io::Error::new(io::ErrorKind::BrokenPipe, "simulation stalled"));
            }
            if g.pipes[pipe].buf.is_empty() {
                if g.pipes[pipe].closed {
                    return Ok(0);
                }
                return Err(io::Error::new(io::ErrorKind::TimedOut, "simulated read timeout"));
            }
        }
        if g.pipes[pipe].buf.is_empty() {
            return Ok(0); // closed
        }
        let max = g.pipes[pipe].buf.len().min(buf.len());
        let n = if frag && max > 1 { 1 + self.0.cx.draw(max as u64) as usize } else { max };
        for b in buf.iter_mut().take(n) {
            *b = g.pipes[pipe].buf.pop_front().unwrap();
        }
        g.pipes[pipe].total_read += n as u64;
        drop(g);
        self.yield_point(me);
        Ok(n)
    }

    pub fn close_pipe(&self, pipe: usize) {
        let mut g = self.lock();
        g.pipes[pipe].closed = true;
        for t in g.tasks.iter_mut() {
            if let TaskSt::BlockedRead { pipe: bp, .. } = *t {
                if bp == pipe {
                    *t = TaskSt::Runnable;
                }
            }
        }
    }

    pub fn pipe_closed(&self, pipe: usize) -> bool {
        self.lock().pipes[pipe].closed
    }

    pub fn pipe_len(&self, pipe: usize) -> usize {
        self.lock().pipes[pipe].buf.len()
    }

    pub fn stalled(&self) -> Option<&'static str> {
        self.lock().stalled
    }

    fn start_task(&self, me: usize) {
        let mut g = self.lock();
        g.tasks[me] = TaskSt::Runnable;
        self.0.main_cv.notify_all();
        while g.current != Some(me) && g.stalled != Some("watchdog") {
            g = match self.0.cvs[me].wait(g) {
                Ok(g) => g,
                Err(p) => p.into_inner(),
            };
        }
    }

    fn finish_task(&self, me: usize) {
        let mut g = self.lock();
        g.tasks[me] = TaskSt::Done;
        let _g = self.reschedule(g, me);
    }

    /// Runs the given task bodies to completion under the scheduler. Each body gets its task id.
    /// Returns per-task panic information (None = finished normally) and the report.
    pub fn run(&self, bodies: Vec<Box<dyn FnOnce(usize) + Send + 'static>>) -> (Vec<Option<PanicInfo>>, SchedReport) {
        let n = bodies.len();
        let panics: Arc<Mutex<Vec<Option<PanicInfo>>>> = Arc::new(Mutex::new(vec![None; n]));
        let finished: Arc<(Mutex<usize>, Condvar)> = Arc::new((Mutex::new(0), Condvar::new()));
        for (i, body) in bodies.into_iter().enumerate() {
            let sched = self.clone();
            let panics = panics.clone();
            let finished = finished.clone();
            // Node threads come from a process-wide pool: spawning ~5 OS threads per run from 16
            // workers serialises on the kernel's address-space lock and scales negatively.
            pool_submit(Box::new(move || {
                sched.start_task(i);
                let r = catch(|| body(i));
                if let Err(p) = r {
                    panics.lock().unwrap_or_else(|e| e.into_inner())[i] = Some(p);
                }
                sched.finish_task(i);
                let (m, cv) = &*finished;
                *m.lock().unwrap_or_else(|e| e.into_inner()) += 1;
                cv.notify_all();
            }));
        }
        {
            // wait until every task has registered, then hand the baton to the first one
            let mut g = self.lock();
            while g.tasks.iter().any(|t| *t == TaskSt::NotStarted) {
                g = match self.0.main_cv.wait(g) {
                    Ok(g) => g,
                    Err(p) => p.into_inner(),
                };
            }
            let first = self.0.cx.draw(n as u64) as usize;
            g.current = Some(first);
            self.0.cvs[first].notify_one();
            let start = std::time::Instant::now();
            while !g.all_done {
                let (ng, to) = match self.0.main_cv.wait_timeout(g, Duration::from_secs(5)) {
                    Ok(x) => x,
                    Err(p) => p.into_inner(),
                };
                g = ng;
                if to.timed_out() && start.elapsed() > Duration::from_secs(120) && !g.all_done {
                    // watchdog: a harness bug, never a verdict
                    g.stalled = Some("watchdog");
                    for t in g.tasks.iter_mut() {
                        if *t != TaskSt::Done {
                            *t = TaskSt::Runnable;
                        }
                    }
                    for cv in &self.0.cvs {
                        cv.notify_all();
                    }
                    break;
                }
            }
        }
        {
            // every body has returned (and released everything it captured) before we report
            let (m, cv) = &*finished;
            let mut done = m.lock().unwrap_or_else(|e| e.into_inner());
            let start = std::time::Instant::now();
            while *done < n && start.elapsed() < Duration::from_secs(180) {
                let (d, _) = cv.wait_timeout(done, Duration::from_secs(1)).unwrap_or_else(|e| e.into_inner());
                done = d;
            }
        }
        let g = self.lock();
        let report = SchedReport {
            clock_ns: g.clock_ns,
            switches: g.switches,
            sched_hash: g.sched_hash,
            stalled: g.stalled,
            steps: g.steps,
            timeouts: g.timeouts,
            max_backlog: g.pipes.iter().map(|p| p.max_backlog).collect(),
        };
        let p = panics.lock().unwrap_or_else(|e| e.into_inner()).clone();
        (p, report)
    }
}

// ---------------------------------------------------------------------------------------------
// Thread pool for node threads
// ---------------------------------------------------------------------------------------------

type Job = Box<dyn FnOnce() + Send + 'static>;

static POOL_IDLE: Mutex<Vec<std::sync::mpsc::Sender<Job>>> = Mutex::new(Vec::new());

fn pool_submit(job: Job) {
    let mut job = Some(job);
    loop {
        let tx = POOL_IDLE.lock().unwrap_or_else(|e| e.into_inner()).pop();
        match tx {
            Some(tx) => match tx.send(job.take().unwrap()) {
                Ok(()) => return,
                Err(e) => job = Some(e.0),
            },
            None => break,
        }
    }
    let (tx, rx) = std::sync::mpsc::channel::<Job>();
    let _ = tx.send(job.take().unwrap());
    let _ = std::thread::Builder::new().stack_size(512 * 1024).name("sim-node".into()).spawn(move || {
        crate::core::install_panic_hook();
        while let Ok(job) = rx.recv() {
            job();
            POOL_IDLE.lock().unwrap_or_else(|e| e.into_inner()).push(tx.clone());
        }
    });
}
