//! Batch runner: fixed number of runs per tier, 16 workers, shrinker, replay files, evidence.

use std::collections::BTreeMap;
use std::path::{Path, PathBuf};
use std::sync::atomic::{AtomicU64, Ordering};
use std::sync::Mutex;
use std::time::Instant;

use crate::core::{execute, DistinctSet, Scenario, Tier, Violation};
use crate::json::{self, J};
use crate::tape::{run_seed, Tape};

pub const DEFAULT_SEED: u64 = 20260926;

pub fn verif_dir() -> PathBuf {
    std::env::var("VERIF_DIR").map(PathBuf::from).unwrap_or_else(|_| PathBuf::from("/verif"))
}

/// Where evidence and replay files go (default: the verif directory itself). Sensitivity runs
/// against scratch trees point this elsewhere so that committed evidence is never overwritten.
pub fn out_dir() -> PathBuf {
    std::env::var("VERIF_OUT_DIR").map(PathBuf::from).unwrap_or_else(|_| verif_dir())
}

pub fn workers() -> usize {
    std::env::var("VERIF_WORKERS")
        .ok()
        .and_then(|s| s.parse::<usize>().ok())
        .filter(|n| *n >= 1)
        .unwrap_or_else(|| std::thread::available_parallelism().map(|n| n.get()).unwrap_or(16).min(16))
}

#[derive(Debug, Default)]
pub struct BatchStats {
    pub runs: u64,
    pub discarded: u64,
    pub nontrivial: u64,
    pub events: u64,
    pub draws: u64,
    pub sim_ns: u128,
    pub faults: BTreeMap<&'static str, u64>,
    pub probes: BTreeMap<String, u64>,
    pub distinct: DistinctSet,
    pub distinct2: DistinctSet,
    /// Distinct whole executions by event-log hash.
    pub distinct_logs: DistinctSet,
    /// Per-run event-log hashes, only kept when asked for (determinism self-test).
    pub hashes: Vec<(u64, u64)>,
}

impl BatchStats {
    fn merge(&mut self, o: BatchStats) {
        self.runs += o.runs;
        self.discarded += o.discarded;
        self.nontrivial += o.nontrivial;
        self.events += o.events;
        self.draws += o.draws;
        self.sim_ns += o.sim_ns;
        for (k, v) in o.faults {
            *self.faults.entry(k).or_insert(0) += v;
        }
        for (k, v) in o.probes {
            *self.probes.entry(k).or_insert(0) += v;
        }
        self.distinct.merge(o.distinct);
        self.distinct2.merge(o.distinct2);
        self.distinct_logs.merge(o.distinct_logs);
        self.hashes.extend(o.hashes);
    }
}

#[derive(Debug)]
pub struct Found {
    pub index: u64,
    pub violation: Violation,
    pub tape: Vec<u64>,
    /// Run indices the same worker thread executed before this one (oldest first). Only needed
    /// when the code under test carries state from run to run (a static or thread-local).
    pub worker_history: Vec<u64>,
}

/// Executes one run on a brand-new thread, so that thread-local state of the code under test
/// (or anything a previous run left behind on this thread) cannot influence it.
pub fn execute_isolated(scn: &dyn Scenario, tape: Tape, tier: Tier, tracing: bool, index: u64, prelude: &[(u64, u64)]) -> crate::core::RunResult {
    crate::core::set_logging_for(index);
    std::thread::scope(|s| {
        s.spawn(move || {
            crate::core::install_panic_hook();
            // prelude: earlier runs of the same worker, replayed from their seeds
            for (seed, i) in prelude {
                let _ = execute(scn, Tape::from_seed(run_seed(*seed, scn.name(), *i)), tier, false, *i);
            }
            execute(scn, tape, tier, tracing, index)
        })
        .join()
        .expect("isolated run thread")
    })
}

#[derive(Debug)]
pub struct BatchResult {
    pub stats: BatchStats,
    /// Lowest-index violation per class.
    pub found: Vec<Found>,
    pub harness_errors: Vec<String>,
    pub truncated: bool,
    pub wall_s: f64,
    pub samples: Vec<J>,
}

/// Runs `n` runs of one scenario on `nworkers` threads. The result depends only on (seed, n).
pub fn run_batch(scn: &dyn Scenario, tier: Tier, seed: u64, base: u64, n: u64, nworkers: usize, keep_hashes: bool, wall_guard_s: f64) -> BatchResult {
    let start = Instant::now();
    crate::core::set_logging_for(base);
    let n = base + n;
    let next = AtomicU64::new(base);
    // Once a violation is found at index i, no index above i is started (all below i already were).
    let stop_after = AtomicU64::new(u64::MAX);
    let found: Mutex<BTreeMap<String, Found>> = Mutex::new(BTreeMap::new());
    let herr: Mutex<Vec<String>> = Mutex::new(Vec::new());
    let merged: Mutex<BatchStats> = Mutex::new(BatchStats::default());
    let truncated = std::sync::atomic::AtomicBool::new(false);
    let known = crate::known::load();

    std::thread::scope(|s| {
        for _ in 0..nworkers {
            s.spawn(|| {
                crate::core::install_panic_hook();
                let mut local = BatchStats::default();
                let mut history: Vec<u64> = Vec::new();
                loop {
                    let i = next.fetch_add(1, Ordering::SeqCst);
                    if i >= n || i > stop_after.load(Ordering::SeqCst) {
                        break;
                    }
                    if start.elapsed().as_secs_f64() > wall_guard_s {
                        truncated.store(true, Ordering::SeqCst);
                        break;
                    }
                    let tape = Tape::from_seed(run_seed(seed, scn.name(), i));
                    let r = execute(scn, tape, tier, false, i);
                    local.runs += 1;
                    local.events += r.ctx.events;
                    local.draws += r.ctx.tape.rec.len() as u64;
                    local.sim_ns += u128::from(r.ctx.sim_ns);
                    if r.ctx.discarded {
                        local.discarded += 1;
                    }
                    if r.ctx.nontrivial {
                        local.nontrivial += 1;
                    }
                    for (k, v) in &r.ctx.faults {
                        *local.faults.entry(k).or_insert(0) += v;
                    }
                    for (k, v) in &r.ctx.probes {
                        *local.probes.entry(k.clone()).or_insert(0) += v;
                    }
                    for h in &r.ctx.distinct {
                        local.distinct.add(*h);
                    }
                    for h in &r.ctx.distinct2 {
                        local.distinct2.add(*h);
                    }
                    if r.ctx.nontrivial && !r.ctx.discarded {
                        local.distinct_logs.add(r.ctx.log.0);
                    }
                    if keep_hashes {
                        local.hashes.push((i, r.ctx.log.0));
                    }
                    history.push(i);
                    if let Some(e) = r.harness_error {
                        herr.lock().unwrap().push(format!("run {i}: {e}"));
                        stop_after.fetch_min(i, Ordering::SeqCst);
                    }
                    if let Err(v) = r.verdict {
                        let is_known = known.matches(scn.property(), &v.class).is_some();
                        let mut f = found.lock().unwrap();
                        let e = f.get(&v.class);
                        if e.is_none() || e.unwrap().index > i {
                            f.insert(v.class.clone(), Found { index: i, violation: v, tape: r.ctx.tape.rec.clone(), worker_history: history.clone() });
                        }
                        if !is_known {
                            stop_after.fetch_min(i, Ordering::SeqCst);
                        }
                    }
                }
                merged.lock().unwrap().merge(local);
            });
        }
    });

    let mut stats = merged.into_inner().unwrap();
    stats.hashes.sort();
    let mut found: Vec<Found> = found.into_inner().unwrap().into_values().collect();
    found.sort_by_key(|f| f.index);
    // Samples: the first three runs written out in full (re-executed with tracing on).
    let mut samples = Vec::new();
    for i in base..n.min(base + 3) {
        let tape = Tape::from_seed(run_seed(seed, scn.name(), i));
        let r = execute(scn, tape, tier, true, i);
        let mut tr: Vec<J> = r.ctx.trace.iter().take(60).map(|s| J::s(truncate(s, 240))).collect();
        if r.ctx.trace.len() > 60 {
            tr.push(J::s(format!("... {} more events", r.ctx.trace.len() - 60)));
        }
        samples.push(
            J::obj()
                .with("scenario", J::s(scn.name()))
                .with("run", J::u(i))
                .with("draws", J::u(r.ctx.tape.rec.len() as u64))
                .with("events", J::u(r.ctx.events))
                .with("log_hash", J::s(format!("{:016x}", r.ctx.log.0)))
                .with("trace", J::Arr(tr)),
        );
    }
    crate::core::set_logging_for(0);
    BatchResult {
        stats,
        found,
        harness_errors: herr.into_inner().unwrap(),
        truncated: truncated.load(Ordering::SeqCst),
        wall_s: start.elapsed().as_secs_f64(),
        samples,
    }
}

fn truncate(s: &str, n: usize) -> String {
    if s.len() <= n {
        s.to_string()
    } else {
        let mut end = n;
        while !s.is_char_boundary(end) {
            end -= 1;
        }
        format!("{}…", &s[..end])
    }
}

// ---------------------------------------------------------------------------------------------
// Shrinking and replay
// ---------------------------------------------------------------------------------------------

/// Re-executes a tape; returns the violation class if it still fails.
fn fails_with(scn: &dyn Scenario, tier: Tier, index: u64, tape: &[u64]) -> Option<(String, Vec<u64>)> {
    let r = execute_isolated(scn, Tape::from_values(tape.to_vec()), tier, false, index, &[]);
    match r.verdict {
        Err(v) if r.harness_error.is_none() => Some((v.class, r.ctx.tape.rec)),
        _ => None,
    }
}

/// Shrinks a failing tape while the same violation class persists.
pub fn shrink(scn: &dyn Scenario, tier: Tier, index: u64, class: &str, tape: Vec<u64>) -> (Vec<u64>, u64) {
    let start = Instant::now();
    let mut execs = 0u64;
    let budget_execs = 3000u64;
    let budget_s = 30.0;
    let mut best = tape;
    let mut try_tape = |cand: &[u64], execs: &mut u64| -> Option<Vec<u64>> {
        if *execs >= budget_execs || start.elapsed().as_secs_f64() > budget_s {
            return None;
        }
        *execs += 1;
        match fails_with(scn, tier, index, cand) {
            // The recorded tape of the re-execution is the canonical (already reduced) form.
            Some((c, rec)) if c == class => Some(rec),
            _ => None,
        }
    };
    // Normalise: the recorded tape of a replay is never longer than what was consumed.
    if let Some(rec) = try_tape(&best, &mut execs) {
        best = rec;
    }
    let mut improved = true;
    while improved {
        improved = false;
        // 1. cut the tail (binary search on length)
        let mut lo = 0usize;
        let mut hi = best.len();
        while lo < hi {
            let mid = (lo + hi) / 2;
            if let Some(rec) = try_tape(&best[..mid], &mut execs) {
                if rec.len() < best.len() {
                    improved = true;
                }
                best = rec;
                hi = best.len().min(mid);
            } else {
                lo = mid + 1;
            }
        }
        // 2. delete blocks of halving size
        let mut block = (best.len() / 2).max(1);
        while block >= 1 {
            let mut i = 0;
            while i + block <= best.len() {
                if execs >= budget_execs || start.elapsed().as_secs_f64() > budget_s {
                    break;
                }
                let mut cand = best.clone();
                cand.drain(i..i + block);
                if let Some(rec) = try_tape(&cand, &mut execs) {
                    if rec.len() < best.len() || rec != best {
                        best = rec;
                        improved = true;
                        continue;
                    }
                }
                i += block;
            }
            if block == 1 || execs >= budget_execs || start.elapsed().as_secs_f64() > budget_s {
                break;
            }
            block /= 2;
        }
        // 3. zero single entries, 4. lower single entries
        let mut i = 0;
        while i < best.len() {
            if execs >= budget_execs || start.elapsed().as_secs_f64() > budget_s {
                break;
            }
            if best[i] != 0 {
                let mut cand = best.clone();
                cand[i] = 0;
                if let Some(rec) = try_tape(&cand, &mut execs) {
                    best = rec;
                    improved = true;
                } else {
                    let mut lo = 0u64;
                    let mut hi = best[i];
                    while lo + 1 < hi {
                        let mid = lo + (hi - lo) / 2;
                        let mut cand = best.clone();
                        cand[i] = mid;
                        if let Some(rec) = try_tape(&cand, &mut execs) {
                            best = rec;
                            if i >= best.len() {
                                break;
                            }
                            hi = best[i].min(mid);
                            improved = true;
                        } else {
                            lo = mid;
                        }
                    }
                }
            }
            i += 1;
        }
        if execs >= budget_execs || start.elapsed().as_secs_f64() > budget_s {
            break;
        }
    }
    (best, execs)
}

/// Does this tape fail (with this class) when executed in isolation on a fresh thread?
pub fn reproduces_isolated(scn: &dyn Scenario, tier: Tier, index: u64, class: &str, tape: &[u64], prelude: &[(u64, u64)]) -> bool {
    let r = execute_isolated(scn, Tape::from_values(tape.to_vec()), tier, false, index, prelude);
    matches!(r.verdict, Err(v) if v.class == class) && r.harness_error.is_none()
}

pub fn write_replay(scn: &dyn Scenario, tier: Tier, seed: u64, index: u64, original_len: usize, shrink_execs: u64, tape: &[u64], prelude: &[u64]) -> (PathBuf, Violation, u64) {
    let pre: Vec<(u64, u64)> = prelude.iter().map(|i| (seed, *i)).collect();
    let r = execute_isolated(scn, Tape::from_values(tape.to_vec()), tier, true, index, &pre);
    let v = r.verdict.clone().err().unwrap_or_else(|| Violation::new("none", "replay did not fail"));
    let dir = out_dir().join("replays");
    let _ = std::fs::create_dir_all(&dir);
    let path = dir.join(format!("{}-{}-seed{}-run{}.json", scn.property(), scn.name(), seed, index));
    let j = J::obj()
        .with("property", J::s(scn.property()))
        .with("scenario", J::s(scn.name()))
        .with("tier", J::s(tier.name()))
        .with("build_profile", J::s(if cfg!(debug_assertions) { "checked" } else { "plain" }))
        .with("seed", J::u(seed))
        .with("run", J::u(index))
        .with("class", J::s(v.class.clone()))
        .with("detail", J::s(v.detail.clone()))
        .with("log_hash", J::s(format!("{:016x}", r.ctx.log.0)))
        .with("original_tape_len", J::u(original_len as u64))
        .with("shrink_executions", J::u(shrink_execs))
        .with("tape", J::Arr(r.ctx.tape.rec.iter().map(|v| J::u(*v)).collect()))
        .with("prelude_runs", J::Arr(prelude.iter().map(|v| J::u(*v)).collect()))
        .with(
            "prelude_note",
            J::s(if prelude.is_empty() {
                "none: the run fails in isolation"
            } else {
                "the tree under test carries state from run to run (a static or thread-local): the listed runs of the same scenario and seed are executed first, on the same fresh thread"
            }),
        )
        .with("faults_fired", J::Obj(r.ctx.faults.iter().map(|(k, v)| (k.to_string(), J::u(*v))).collect()))
        .with("trace", J::Arr(r.ctx.trace.iter().map(|s| J::s(truncate(s, 400))).collect()));
    let _ = std::fs::write(&path, j.to_string_pretty());
    (path, v, r.ctx.log.0)
}

/// Replays a file. Exit code semantics: 1 = violation reproduced (same class; a differing log hash is remarked on),
/// 0 = no violation, 2 = mismatch / harness error.
pub fn replay_file(path: &Path, scenarios: &[Box<dyn Scenario>]) -> i32 {
    let text = match std::fs::read_to_string(path) {
        Ok(t) => t,
        Err(e) => {
            eprintln!("cannot read {}: {e}", path.display());
            return 2;
        }
    };
    let j = match json::parse(&text) {
        Ok(j) => j,
        Err(e) => {
            eprintln!("cannot parse {}: {e}", path.display());
            return 2;
        }
    };
    let name = j.get("scenario").and_then(J::as_str).unwrap_or("");
    let Some(scn) = scenarios.iter().find(|s| s.name() == name) else {
        eprintln!("unknown scenario {name:?}");
        return 2;
    };
    let tier = if j.get("tier").and_then(J::as_str) == Some("thorough") { Tier::Thorough } else { Tier::Quick };
    let tape: Vec<u64> = j.get("tape").and_then(J::as_arr).map(|a| a.iter().filter_map(J::as_u64).collect()).unwrap_or_default();
    let want_class = j.get("class").and_then(J::as_str).unwrap_or("").to_string();
    let want_hash = j.get("log_hash").and_then(J::as_str).unwrap_or("").to_string();
    let index = j.get("run").and_then(J::as_u64).unwrap_or(0);
    let seed = j.get("seed").and_then(J::as_u64).unwrap_or(DEFAULT_SEED);
    let prelude: Vec<(u64, u64)> = j.get("prelude_runs").and_then(J::as_arr).map(|a| a.iter().filter_map(J::as_u64).map(|i| (seed, i)).collect()).unwrap_or_default();
    let r = execute_isolated(scn.as_ref(), Tape::from_values(tape), tier, true, index, &prelude);
    for line in &r.ctx.trace {
        println!("  {line}");
    }
    if let Some(e) = r.harness_error {
        eprintln!("HARNESS-ERROR {e}");
        return 2;
    }
    let got_hash = format!("{:016x}", r.ctx.log.0);
    match r.verdict {
        Err(v) => {
            println!("replayed: class={} detail={}", v.class, v.detail);
            println!("log_hash={got_hash} (recorded {want_hash})");
            if v.class == want_class && got_hash == want_hash {
                println!("VIOLATION property={} replay={}", scn.property(), path.display());
                1
            } else if v.class == want_class {
                // The same run fails the same way, but some recorded value (a sleep length, say) differs:
                // the tree under test reads something the simulator does not own -- the real monotonic
                // clock, in every case seen. On the unchanged tree event logs are exact (selftest
                // determinism); a tree that makes them inexact AND violates the property is reported as
                // the violation it is, with this remark, not as a harness error.
                println!("note: same violation class, but the event log differs from the recorded one (the tree under test depends on something outside the simulator's seams, e.g. the real clock)");
                println!("VIOLATION property={} replay={}", scn.property(), path.display());
                1
            } else {
                eprintln!("a different violation class than recorded ({want_class})");
                2
            }
        }
        Ok(()) => {
            println!("replayed: no violation (recorded class {want_class}); log_hash={got_hash}");
            0
        }
    }
}
