//! Known findings: genuine defects recorded rather than repaired. Read-only at run time.

use crate::json::{self, J};
use crate::runner::verif_dir;

#[derive(Clone, Debug)]
pub struct Finding {
    pub property: String,
    /// Exact violation class (panic site or oracle class) this finding covers.
    pub class: String,
    pub what: String,
}

#[derive(Clone, Debug, Default)]
pub struct Known {
    pub findings: Vec<Finding>,
    pub fixed: Vec<String>,
}

impl Known {
    pub fn matches(&self, property: &str, class: &str) -> Option<&Finding> {
        self.findings.iter().find(|f| f.property == property && f.class == class)
    }
}

pub fn load() -> Known {
    let path = verif_dir().join("known_findings.json");
    let Ok(text) = std::fs::read_to_string(&path) else {
        return Known::default();
    };
    let Ok(j) = json::parse(&text) else {
        eprintln!("warning: {} does not parse; ignoring it", path.display());
        return Known::default();
    };
    let mut k = Known::default();
    if let Some(a) = j.get("findings").and_then(J::as_arr) {
        for f in a {
            let g = |n: &str| f.get(n).and_then(J::as_str).unwrap_or("").to_string();
            k.findings.push(Finding { property: g("property"), class: g("class"), what: g("what") });
        }
    }
    if let Some(a) = j.get("fixed").and_then(J::as_arr) {
        for f in a {
            if let Some(s) = f.as_str() {
                k.fixed.push(s.to_string());
            }
        }
    }
    k
}
