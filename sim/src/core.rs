//! Run context: tape, event log, fault / probe counters, distinctness sets, simulated clock.

use std::cell::RefCell;
use std::collections::{BTreeMap, HashSet};
use std::hash::{Hash, Hasher};
use std::panic::{self, AssertUnwindSafe};
use std::sync::{Arc, Mutex, MutexGuard, Once};

use crate::tape::Tape;

#[derive(Clone, Copy, Debug, PartialEq, Eq)]
pub enum Tier {
    Quick,
    Thorough,
}

impl Tier {
    pub fn name(self) -> &'static str {
        match self {
            Tier::Quick => "quick",
            Tier::Thorough => "thorough",
        }
    }
}

/// A property violation found in one run.
#[derive(Clone, Debug)]
pub struct Violation {
    /// Stable class used to decide "same failure" while shrinking, e.g. `C12/panic@libs/testing/src/virtual_sign_bus.rs:413`.
    pub class: String,
    pub detail: String,
}

impl Violation {
    pub fn new(class: impl Into<String>, detail: impl Into<String>) -> Self {
        Violation { class: class.into(), detail: detail.into() }
    }
}

/// FNV-1a as a `std::hash::Hasher`, so derived `Hash` impls give process-independent values.
#[derive(Clone, Debug)]
pub struct Fnv(pub u64);

impl Default for Fnv {
    fn default() -> Self {
        Fnv(0xcbf2_9ce4_8422_2325)
    }
}

impl Hasher for Fnv {
    fn finish(&self) -> u64 {
        self.0
    }
    fn write(&mut self, bytes: &[u8]) {
        for b in bytes {
            self.0 ^= u64::from(*b);
            self.0 = self.0.wrapping_mul(0x0000_0100_0000_01B3);
        }
    }
}

pub fn stable_hash<T: Hash + ?Sized>(v: &T) -> u64 {
    let mut h = Fnv::default();
    v.hash(&mut h);
    h.finish()
}

#[derive(Debug)]
pub struct Ctx {
    /// Index of this run inside its batch (enumerating scenarios decode their case from it).
    pub index: u64,
    pub tape: Tape,
    pub tier: Tier,
    /// Hash of the event log (only simulator-visible values are fed into it).
    pub log: Fnv,
    pub events: u64,
    /// Human-readable trace, collected only when tracing (replay, samples).
    pub tracing: bool,
    pub trace: Vec<String>,
    /// How often each fault kind actually fired.
    pub faults: BTreeMap<&'static str, u64>,
    /// Rare-condition probes.
    pub probes: BTreeMap<String, u64>,
    /// Hashes contributing to the scenario's distinctness measure.
    pub distinct: Vec<u64>,
    /// Second distinctness measure (scenario-defined), e.g. states reached.
    pub distinct2: Vec<u64>,
    /// Simulated nanoseconds covered by this run.
    pub sim_ns: u64,
    /// Runs that had to be abandoned without a verdict (e.g. a crash of another property's making).
    pub discarded: bool,
    /// Whether this run counts as non-trivial by the scenario's rule.
    pub nontrivial: bool,
    /// First violation raised by an oracle that runs inside a bus / port wrapper.
    pub violation: Option<Violation>,
}

impl Ctx {
    pub fn new(tape: Tape, tier: Tier, tracing: bool) -> Self {
        Ctx {
            index: 0,
            tape,
            tier,
            log: Fnv::default(),
            events: 0,
            tracing,
            trace: Vec::new(),
            faults: BTreeMap::new(),
            probes: BTreeMap::new(),
            distinct: Vec::new(),
            distinct2: Vec::new(),
            sim_ns: 0,
            discarded: false,
            nontrivial: false,
            violation: None,
        }
    }
}

/// Shared handle to the run context. Nodes on scheduler-controlled threads share it too, which is
/// safe because exactly one of them runs at a time; no lock is ever held across code under test.
#[derive(Clone, Debug)]
pub struct Cx(Arc<Mutex<Ctx>>);

impl Cx {
    pub fn new(ctx: Ctx) -> Self {
        Cx(Arc::new(Mutex::new(ctx)))
    }

    pub fn lock(&self) -> MutexGuard<'_, Ctx> {
        match self.0.lock() {
            Ok(g) => g,
            Err(p) => p.into_inner(),
        }
    }

    pub fn into_inner(self) -> Ctx {
        match Arc::try_unwrap(self.0) {
            Ok(m) => match m.into_inner() {
                Ok(c) => c,
                Err(p) => p.into_inner(),
            },
            Err(arc) => {
                // Some clone is still alive (e.g. inside a leaked bus); take a snapshot instead.
                let mut g = match arc.lock() {
                    Ok(g) => g,
                    Err(p) => p.into_inner(),
                };
                let tape = std::mem::replace(&mut g.tape, Tape::from_values(vec![]));
                let mut c = Ctx::new(tape, g.tier, g.tracing);
                c.index = g.index;
                c.log = g.log.clone();
                c.events = g.events;
                c.trace = std::mem::take(&mut g.trace);
                c.faults = std::mem::take(&mut g.faults);
                c.probes = std::mem::take(&mut g.probes);
                c.distinct = std::mem::take(&mut g.distinct);
                c.distinct2 = std::mem::take(&mut g.distinct2);
                c.sim_ns = g.sim_ns;
                c.discarded = g.discarded;
                c.nontrivial = g.nontrivial;
                c.violation = g.violation.take();
                c
            }
        }
    }

    pub fn tier(&self) -> Tier {
        self.lock().tier
    }

    pub fn index(&self) -> u64 {
        self.lock().index
    }

    /// A value in `[0, bound)`.
    pub fn draw(&self, bound: u64) -> u64 {
        self.lock().tape.draw(bound)
    }

    /// Inclusive range; `lo` is the simplest choice.
    pub fn range(&self, lo: u64, hi: u64) -> u64 {
        lo + self.draw(hi - lo + 1)
    }

    /// True with probability `num/den`; a tape value of 0 always means false.
    pub fn chance(&self, num: u64, den: u64) -> bool {
        if num == 0 {
            return false;
        }
        self.draw(den) + num >= den
    }

    pub fn pick<'a, T>(&self, items: &'a [T]) -> &'a T {
        &items[self.draw(items.len() as u64) as usize]
    }

    pub fn bytes(&self, n: usize) -> Vec<u8> {
        let mut g = self.lock();
        (0..n).map(|_| g.tape.draw(256) as u8).collect()
    }

    /// Records an event: fed into the log hash, and into the readable trace when tracing.
    pub fn event<T: Hash + std::fmt::Debug + ?Sized>(&self, kind: &'static str, v: &T) {
        let mut g = self.lock();
        g.events += 1;
        kind.hash(&mut g.log);
        v.hash(&mut g.log);
        if g.tracing && g.trace.len() < 5000 {
            let line = format!("{kind} {v:?}");
            g.trace.push(line);
        }
    }

    /// Feeds the log hash only (the readable form is added separately with `note`).
    pub fn hash_event<T: Hash + ?Sized>(&self, kind: &'static str, v: &T) {
        let mut g = self.lock();
        g.events += 1;
        kind.hash(&mut g.log);
        v.hash(&mut g.log);
    }

    /// Trace-only note (does not influence the hash).
    pub fn note(&self, f: impl FnOnce() -> String) {
        let mut g = self.lock();
        if g.tracing && g.trace.len() < 5000 {
            let s = f();
            g.trace.push(s);
        }
    }

    pub fn tracing(&self) -> bool {
        self.lock().tracing
    }

    pub fn fault(&self, kind: &'static str) {
        let mut g = self.lock();
        *g.faults.entry(kind).or_insert(0) += 1;
        g.events += 1;
        kind.hash(&mut g.log);
        if g.tracing && g.trace.len() < 5000 {
            g.trace.push(format!("FAULT {kind}"));
        }
    }

    pub fn probe(&self, name: &str) {
        let mut g = self.lock();
        if let Some(v) = g.probes.get_mut(name) {
            *v += 1;
        } else {
            g.probes.insert(name.to_string(), 1);
        }
    }

    pub fn probe_n(&self, name: &str, n: u64) {
        let mut g = self.lock();
        *g.probes.entry(name.to_string()).or_insert(0) += n;
    }

    pub fn distinct(&self, h: u64) {
        self.lock().distinct.push(h);
    }

    pub fn distinct2(&self, h: u64) {
        self.lock().distinct2.push(h);
    }

    pub fn add_sim_ns(&self, ns: u64) {
        self.lock().sim_ns += ns;
    }

    pub fn set_nontrivial(&self) {
        self.lock().nontrivial = true;
    }

    /// Raises a violation from inside a wrapper; the first one wins.
    pub fn fail(&self, class: impl Into<String>, detail: impl Into<String>) {
        let mut g = self.lock();
        if g.violation.is_none() {
            let v = Violation::new(class, detail);
            if g.tracing {
                let line = format!("VIOLATION {} — {}", v.class, v.detail);
                g.trace.push(line);
            }
            g.violation = Some(v);
        }
    }

    pub fn failed(&self) -> bool {
        self.lock().violation.is_some()
    }

    /// `Err` if an oracle has raised a violation.
    pub fn verdict(&self) -> Result<(), Violation> {
        match self.lock().violation.clone() {
            Some(v) => Err(v),
            None => Ok(()),
        }
    }

    pub fn is_discarded(&self) -> bool {
        self.lock().discarded
    }

    pub fn discard(&self, why: &str) {
        let mut g = self.lock();
        g.discarded = true;
        let k = format!("discarded:{why}");
        *g.probes.entry(k).or_insert(0) += 1;
    }
}

/// One simulated scenario. A check is one or more scenarios, each run a fixed number of times.
pub trait Scenario: Sync {
    /// Unique name; part of the run seed and of replay files.
    fn name(&self) -> &'static str;
    /// The property this scenario decides.
    fn property(&self) -> &'static str;
    /// Number of runs in each tier.
    fn runs(&self, tier: Tier) -> u64;
    /// One execution; every choice comes from `cx`.
    fn run(&self, cx: &Cx) -> Result<(), Violation>;
    /// Does the run index select a special enumerated case? (informational)
    fn describe(&self) -> &'static str;
}

// ---------------------------------------------------------------------------------------------
// Panic capture
// ---------------------------------------------------------------------------------------------

thread_local! {
    static LAST_PANIC: RefCell<Option<(String, String)>> = const { RefCell::new(None) };
}

static HOOK: Once = Once::new();

/// Installs a silent panic hook that remembers (location, message) per thread.
pub fn install_panic_hook() {
    HOOK.call_once(|| {
        panic::set_hook(Box::new(|info| {
            let loc = info
                .location()
                .map(|l| format!("{}:{}", l.file(), l.line()))
                .unwrap_or_else(|| "<unknown>".to_string());
            let msg = if let Some(s) = info.payload().downcast_ref::<&str>() {
                (*s).to_string()
            } else if let Some(s) = info.payload().downcast_ref::<String>() {
                s.clone()
            } else {
                "<non-string panic payload>".to_string()
            };
            LAST_PANIC.with(|p| *p.borrow_mut() = Some((loc, msg)));
        }));
    });
}

#[derive(Clone, Debug)]
pub struct PanicInfo {
    pub location: String,
    pub message: String,
}

impl PanicInfo {
    /// Location with the repository prefix removed and without the line number's dependence on
    /// absolute paths: `libs/testing/src/virtual_sign_bus.rs:413`.
    pub fn short_location(&self) -> String {
        let l = &self.location;
        if let Some(i) = l.find("/library/") {
            return format!("rust-std:{}", &l[i + 1..]);
        }
        if let Some(i) = l.find("/registry/src/") {
            let rest = &l[i + "/registry/src/".len()..];
            return format!("dep:{}", rest.split_once('/').map(|x| x.1).unwrap_or(rest));
        }
        for marker in ["/libs/", "/src/"] {
            if let Some(i) = l.find(marker) {
                return l[i + 1..].to_string();
            }
        }
        l.clone()
    }

    /// True when the panic originated in the simulator itself (a harness error, not a verdict).
    pub fn in_harness(&self) -> bool {
        self.location.contains("/verif/sim/") || self.location.starts_with("src/") || self.location.starts_with("sim/src/")
    }
}

/// Runs `f`, turning an unwind into `Err(PanicInfo)`.
pub fn catch<R>(f: impl FnOnce() -> R) -> Result<R, PanicInfo> {
    LAST_PANIC.with(|p| *p.borrow_mut() = None);
    match panic::catch_unwind(AssertUnwindSafe(f)) {
        Ok(r) => Ok(r),
        Err(_) => {
            let (location, message) = LAST_PANIC
                .with(|p| p.borrow_mut().take())
                .unwrap_or_else(|| ("<unknown>".into(), "<unknown>".into()));
            Err(PanicInfo { location, message })
        }
    }
}

// ---------------------------------------------------------------------------------------------
// Logging as an ambient condition
// ---------------------------------------------------------------------------------------------

/// Run indices with this bit set are executed with a Trace-level logger installed. `log`
/// macros evaluate their arguments only when the level is enabled, so code under test can
/// behave differently with logging on (the crate's docs recommend RUST_LOG=debug).
pub const LOG_BIT: u64 = 1 << 40;

struct SinkLogger;

struct NullWriter;

impl std::fmt::Write for NullWriter {
    fn write_str(&mut self, _: &str) -> std::fmt::Result {
        Ok(())
    }
}

impl log::Log for SinkLogger {
    fn enabled(&self, _: &log::Metadata<'_>) -> bool {
        true
    }
    fn log(&self, record: &log::Record<'_>) {
        // format the record (Display impls of the code under test run), discard the text
        let _ = std::fmt::write(&mut NullWriter, *record.args());
    }
    fn flush(&self) {}
}

static SINK: SinkLogger = SinkLogger;

/// Switches the process-wide log level for the batch / isolated run that is about to start.
/// All runs of one batch share the mode, so runs stay pure functions of (tape, index).
pub fn set_logging_for(index: u64) {
    static INSTALL: Once = Once::new();
    INSTALL.call_once(|| {
        let _ = log::set_logger(&SINK);
    });
    log::set_max_level(if index & LOG_BIT != 0 { log::LevelFilter::Trace } else { log::LevelFilter::Off });
}

/// Result of one run as the batch runner sees it.
#[derive(Debug)]
pub struct RunResult {
    pub verdict: Result<(), Violation>,
    pub harness_error: Option<String>,
    pub ctx: Ctx,
}

/// Executes one run of a scenario from a tape.
pub fn execute(scn: &dyn Scenario, tape: Tape, tier: Tier, tracing: bool, index: u64) -> RunResult {
    let mut ctx = Ctx::new(tape, tier, tracing);
    ctx.index = index;
    let cx = Cx::new(ctx);
    let cx2 = cx.clone();
    let outcome = catch(move || scn.run(&cx2));
    let ctx = cx.into_inner();
    match outcome {
        Ok(verdict) => RunResult { verdict, harness_error: None, ctx },
        Err(p) => {
            if p.in_harness() {
                RunResult {
                    verdict: Ok(()),
                    harness_error: Some(format!("simulator panicked at {}: {}", p.location, p.message)),
                    ctx,
                }
            } else {
                // Code under test unwound outside an explicit `catch`: report it under the
                // scenario's own property, with the panic site as the class.
                let class = format!("{}/panic@{}", scn.property(), p.short_location());
                RunResult {
                    verdict: Err(Violation::new(class, format!("code under test panicked: {}", p.message))),
                    harness_error: None,
                    ctx,
                }
            }
        }
    }
}

/// Set of hashes with a cap, used for distinctness counts across a batch.
#[derive(Debug, Default)]
pub struct DistinctSet {
    pub set: HashSet<u64>,
}

impl DistinctSet {
    pub const CAP: usize = 3_000_000;
    pub fn add(&mut self, h: u64) {
        if self.set.len() < Self::CAP {
            self.set.insert(h);
        }
    }
    pub fn merge(&mut self, other: DistinctSet) {
        for h in other.set {
            self.add(h);
        }
    }
    pub fn len(&self) -> usize {
        self.set.len()
    }
}
