#![allow(dead_code)]
//! flipdot deterministic simulator — entry point.
//!
//!   flipdot-sim check <ID> <quick|thorough>     run a property's scenarios, write evidence
//!   flipdot-sim replay <file>                   replay a stored tape
//!   flipdot-sim hashes <scenario> <n> [tier]    print per-run event-log hashes (determinism test)
//!   flipdot-sim list                            list properties and scenarios

mod bus;
mod core;
mod gens;
mod json;
mod known;
mod models;
mod ops;
mod port;
mod props;
mod runner;
mod scen;
mod sched;
mod tape;

use std::path::PathBuf;
use std::process::Command;

use crate::core::{Scenario, Tier};
use crate::json::J;
use crate::runner::{run_batch, shrink, verif_dir, workers, write_replay, DEFAULT_SEED};

fn seed_from_env() -> u64 {
    match std::env::var("VERIF_SEED") {
        Ok(s) => match s.trim().parse::<i128>() {
            Ok(v) => v as u64,
            Err(_) => {
                eprintln!("VERIF_SEED={s:?} is not an integer; using the default seed {DEFAULT_SEED}");
                DEFAULT_SEED
            }
        },
        Err(_) => DEFAULT_SEED,
    }
}

fn main() {
    core::install_panic_hook();
    let args: Vec<String> = std::env::args().skip(1).collect();
    let code = match args.first().map(String::as_str) {
        Some("check") => {
            let id = args.get(1).cloned().unwrap_or_default();
            let tier = match args.get(2).map(String::as_str).map(str::to_string).or_else(|| std::env::var("VERIF_TIER").ok()).as_deref() {
                Some("thorough") => Tier::Thorough,
                _ => Tier::Quick,
            };
            check(&id, tier)
        }
        Some("replay") => {
            let path = PathBuf::from(args.get(1).cloned().unwrap_or_default());
            runner::replay_file(&path, &scen::all())
        }
        Some("hashes") => {
            let name = args.get(1).cloned().unwrap_or_default();
            let n: u64 = args.get(2).and_then(|s| s.parse().ok()).unwrap_or(1000);
            let tier = if args.get(3).map(String::as_str) == Some("thorough") { Tier::Thorough } else { Tier::Quick };
            let base = if args.iter().any(|a| a == "logging") { crate::core::LOG_BIT } else { 0 };
            hashes(&name, n, tier, base)
        }
        Some("list") => {
            for p in props::all() {
                println!("{} [{}] {}", p.id, p.level, p.title);
                for s in scen::all().iter().filter(|s| s.property() == p.id) {
                    println!("    {:<22} quick={} thorough={}", s.name(), s.runs(Tier::Quick), s.runs(Tier::Thorough));
                }
            }
            0
        }
        _ => {
            eprintln!("usage: flipdot-sim check <ID> <quick|thorough> | replay <file> | hashes <scenario> <n> | list");
            2
        }
    };
    std::process::exit(code);
}

fn hashes(name: &str, n: u64, tier: Tier, base: u64) -> i32 {
    let all = scen::all();
    let Some(scn) = all.iter().find(|s| s.name() == name) else {
        eprintln!("unknown scenario {name}");
        return 2;
    };
    let seed = seed_from_env();
    let r = run_batch(scn.as_ref(), tier, seed, base, n, workers(), true, 1e9);
    for (i, h) in &r.stats.hashes {
        println!("{i} {h:016x}");
    }
    if !r.harness_errors.is_empty() {
        for e in &r.harness_errors {
            eprintln!("HARNESS-ERROR {e}");
        }
        return 2;
    }
    0
}

fn check(id: &str, tier: Tier) -> i32 {
    let Some(prop) = props::all().into_iter().find(|p| p.id == id) else {
        eprintln!("unknown or unclaimed property {id:?}");
        return 2;
    };
    let seed = seed_from_env();
    let nworkers = workers();
    println!("flipdot-sim: property={} tier={} VERIF_SEED={} workers={}", prop.id, tier.name(), seed, nworkers);
    let all = scen::all();
    let scns: Vec<&Box<dyn Scenario>> = all.iter().filter(|s| s.property() == prop.id).collect();
    if scns.is_empty() {
        eprintln!("no scenario registered for {id}");
        return 2;
    }
    let known = known::load();
    let start = std::time::Instant::now();
    let mut total_runs = 0u64;
    let mut total_discarded = 0u64;
    let mut distinct_nontrivial = 0u64;
    let mut sim_ns: u128 = 0;
    let mut samples: Vec<J> = Vec::new();
    let mut per_scn: Vec<J> = Vec::new();
    let mut violations = 0i64;
    let mut known_hits: Vec<(String, String)> = Vec::new();
    let mut exit = 0;
    let mut truncated = false;
    let mut warnings: Vec<String> = Vec::new();

    let mut jobs: Vec<(&Box<dyn Scenario>, u64, u64, &'static str)> = Vec::new();
    for scn in scns {
        let div = std::env::var("VERIF_RUNS_DIV").ok().and_then(|s| s.parse::<u64>().ok()).unwrap_or(1).max(1);
        let n = std::env::var("VERIF_RUNS").ok().and_then(|s| s.parse::<u64>().ok()).unwrap_or_else(|| (scn.runs(tier) / div).max(scn.runs(tier).min(8)));
        jobs.push((scn, 0, n, ""));
        // the same scenario again with a Trace-level logger installed (a quarter as many runs)
        jobs.push((scn, crate::core::LOG_BIT, (n / 4).max(n.min(4)), " [logging on]"));
    }
    let mut tainted = false;
    for (scn, base, n, tag) in jobs {
        if tainted {
            // a violation that lives in process-wide state of the tree under test has been reported:
            // whatever this process ran next would only see that state again
            break;
        }
        let guard = match tier {
            Tier::Quick => 150.0,
            Tier::Thorough => 3600.0,
        };
        let r = run_batch(scn.as_ref(), tier, seed, base, n, nworkers, false, guard);
        println!(
            "  scenario {:<20}{} runs={} wall={:.2}s ({:.0} runs/h) distinct_executions={} discarded={}",
            scn.name(),
            tag,
            r.stats.runs,
            r.wall_s,
            r.stats.runs as f64 / r.wall_s.max(1e-6) * 3600.0,
            r.stats.distinct_logs.len(),
            r.stats.discarded
        );
        if !r.harness_errors.is_empty() {
            for e in &r.harness_errors {
                eprintln!("HARNESS-ERROR {} {e}", scn.name());
            }
            return 2;
        }
        truncated |= r.truncated;
        total_runs += r.stats.runs;
        total_discarded += r.stats.discarded;
        distinct_nontrivial += r.stats.distinct_logs.len() as u64;
        sim_ns += r.stats.sim_ns;
        if base == 0 {
            samples.extend(r.samples.iter().cloned());
        }
        // Fault kinds that never fired / probes the scenario expects but never hit.
        for k in scn_expected_probes(scn.as_ref(), tier) {
            if r.stats.probes.get(k).copied().unwrap_or(0) == 0 && r.stats.faults.get(k).copied().unwrap_or(0) == 0 {
                warnings.push(format!("{}: probe/fault '{}' never hit in this batch", scn.name(), k));
            }
        }
        per_scn.push(
            J::obj()
                .with("scenario", J::s(format!("{}{}", scn.name(), tag)))
                .with("logger_installed", J::Bool(base != 0))
                .with("what", J::s(scn.describe()))
                .with("runs", J::u(r.stats.runs))
                .with("runs_without_verdict", J::u(r.stats.discarded))
                .with("nontrivial_runs", J::u(r.stats.nontrivial))
                .with("distinct_nontrivial_executions_by_event_log_hash", J::u(r.stats.distinct_logs.len() as u64))
                .with("distinct_primary_measure", J::u(r.stats.distinct.len() as u64))
                .with("distinct_secondary_measure", J::u(r.stats.distinct2.len() as u64))
                .with("events", J::u(r.stats.events))
                .with("tape_draws", J::u(r.stats.draws))
                .with("wall_s", J::Num(r.wall_s))
                .with("runs_per_hour", J::u((r.stats.runs as f64 / r.wall_s.max(1e-6) * 3600.0) as u64))
                .with("simulated_seconds", J::Num(r.stats.sim_ns as f64 / 1e9))
                .with("faults_fired", J::Obj(r.stats.faults.iter().map(|(k, v)| (k.to_string(), J::u(*v))).collect()))
                .with("probes", J::Obj(r.stats.probes.iter().map(|(k, v)| (k.clone(), J::u(*v))).collect())),
        );
        for f in r.found {
            if let Some(k) = known.matches(scn.property(), &f.violation.class) {
                if !known_hits.iter().any(|(c, _)| *c == k.class) {
                    known_hits.push((k.class.clone(), k.what.clone()));
                }
                continue;
            }
            violations += 1;
            println!("  violation in run {} of {}: {} — {}", f.index, scn.name(), f.violation.class, f.violation.detail);
            let orig_len = f.tape.len();
            let orig_tape = f.tape.clone();
            // A run must be a pure function of its tape. Confirm that on a fresh thread first;
            // if the failure needs what earlier runs of the same worker left behind in the code
            // under test (a static / thread-local), replay those runs first instead of shrinking.
            let (small, execs, prelude): (Vec<u64>, u64, Vec<u64>) = if runner::reproduces_isolated(scn.as_ref(), tier, f.index, &f.violation.class, &f.tape, &[]) {
                let (s, e) = shrink(scn.as_ref(), tier, f.index, &f.violation.class, f.tape);
                (s, e, vec![])
            } else {
                let pre: Vec<(u64, u64)> = f.worker_history.iter().map(|i| (seed, *i)).collect();
                if runner::reproduces_isolated(scn.as_ref(), tier, f.index, &f.violation.class, &f.tape, &pre) {
                    println!("  the failure depends on state the tree under test keeps from earlier runs; replay file lists {} prelude run(s)", pre.len());
                    (f.tape, 0, f.worker_history.clone())
                } else {
                    eprintln!("HARNESS-ERROR run {} of {} failed inside the batch but neither in isolation nor after replaying its worker's {} earlier runs", f.index, scn.name(), pre.len());
                    return 2;
                }
            };
            let (path, v, _hash) = write_replay(scn.as_ref(), tier, seed, f.index, orig_len, execs, &small, &prelude);
            println!("  minimised tape: {} -> {} entries in {} executions; class {}", orig_len, small.len(), execs, v.class);
            // Replay the minimised tape in a fresh process; it must fail the same way.
            let exe = std::env::current_exe().unwrap();
            let st = Command::new(exe).arg("replay").arg(&path).output();
            match st {
                Ok(o) if o.status.code() == Some(1) => {
                    if String::from_utf8_lossy(&o.stdout).contains("note: same violation class") {
                        println!("  replay in a fresh process reproduced the violation (same run, same class); its event log is not identical: the tree under test reads something outside the seams (e.g. the real clock)");
                    } else {
                        println!("  replay in a fresh process reproduced it exactly");
                    }
                    println!("VIOLATION property={} replay={}", scn.property(), path.display());
                    exit = 1;
                }
                Ok(o) if o.status.code() != Some(1) && {
                    // The failure reproduces inside this process but not in a fresh one: the tree under test
                    // keeps PROCESS-wide state (a static) that other runs of the batch built up. Replay those
                    // runs first, in index order, in one fresh process: the batch's runs before this one, and
                    // -- because the workers of the batch run ahead of each other -- a growing number of the
                    // runs after it, until the failure is there again.
                    let mut ok = false;
                    for extra in [0u64, 4_096, 65_536, u64::MAX] {
                        let end = f.index.saturating_add(1).saturating_add(extra).min(base + n);
                        let pre: Vec<u64> = (base..end).filter(|i| *i != f.index).collect();
                        if pre.is_empty() || pre.len() > 200_000 {
                            break;
                        }
                        let (p2, _, _) = write_replay(scn.as_ref(), tier, seed, f.index, orig_len, 0, &orig_tape, &pre);
                        let exe = std::env::current_exe().unwrap();
                        if matches!(Command::new(exe).arg("replay").arg(&p2).output(), Ok(o2) if o2.status.code() == Some(1)) {
                            println!("  the failure depends on process-wide state the tree under test keeps from other runs; the replay file lists {} run(s) of the batch as its prelude", pre.len());
                            ok = true;
                            break;
                        }
                        if end >= base + n {
                            break;
                        }
                    }
                    ok
                } =>
                {
                    println!("  replay in a fresh process reproduced it exactly");
                    println!("VIOLATION property={} replay={}", scn.property(), path.display());
                    exit = 1;
                    // the process is tainted from here on: stop exploring
                    tainted = true;
                    break;
                }
                Ok(o) => {
                    eprintln!(
                        "HARNESS-ERROR replay of {} in a fresh process did not reproduce (exit {:?}):\n{}",
                        path.display(),
                        o.status.code(),
                        String::from_utf8_lossy(&o.stderr)
                    );
                    return 2;
                }
                Err(e) => {
                    eprintln!("HARNESS-ERROR cannot spawn replay: {e}");
                    return 2;
                }
            }
        }
    }
    for (class, what) in &known_hits {
        println!("KNOWN-FINDING: property={} {} [{}]", prop.id, what, class);
    }
    for w in &warnings {
        println!("  warning: {w}");
    }
    let wall = start.elapsed().as_secs_f64();
    let coverage = J::obj()
        .with("evaluations", J::u(total_runs))
        .with("distinct_nontrivial", J::u(distinct_nontrivial))
        .with("rule", J::s(prop.rule))
        .with("samples", J::Arr(samples))
        .with("exhaustive", J::Bool(prop.exhaustive))
        .with("runs_per_hour", J::u((total_runs as f64 / wall.max(1e-6) * 3600.0) as u64))
        .with("seeds", J::s(format!("VERIF_SEED={seed}; run i of scenario s uses splitmix64(seed, fnv(s), i), i in 0..runs")))
        .with("simulated_seconds_covered", J::Num(sim_ns as f64 / 1e9))
        .with("runs_without_verdict", J::u(total_discarded))
        .with("truncated_by_wall_clock_guard", J::Bool(truncated))
        .with("workers", J::u(nworkers as u64))
        .with("build_profile", J::s(if cfg!(debug_assertions) { "checked: opt-level 2 with overflow checks and debug assertions on (what the repository's own tests run under)" } else { "plain: release without overflow checks and debug assertions" }))
        .with("distinct_counts_saturate_at", J::u(crate::core::DistinctSet::CAP as u64))
        .with("scenarios", J::Arr(per_scn))
        .with("real_components", J::Arr(prop.real.iter().map(|s| J::s(*s)).collect()))
        .with("stub_components", J::Arr(prop.stubs.iter().map(|s| J::s(*s)).collect()))
        .with("known_findings_hit", J::Arr(known_hits.iter().map(|(c, w)| J::s(format!("{w} [{c}]"))).collect()))
        .with("warnings", J::Arr(warnings.iter().map(|w| J::s(w.clone())).collect()));
    let ev = J::obj()
        .with("property_id", J::s(prop.id))
        .with("tier", J::s(tier.name()))
        .with("seed", J::Int(seed as i128))
        .with("level", J::s(prop.level))
        .with("coverage", coverage)
        .with("assumptions", J::Arr(prop.assumptions.iter().map(|s| J::s(*s)).collect()))
        .with("wall_s", J::Num(wall))
        .with("violations", J::Int(violations as i128));
    let dir = runner::out_dir().join("evidence");
    let _ = std::fs::create_dir_all(&dir);
    let path = dir.join(format!("{}.json", prop.id));
    if let Err(e) = std::fs::write(&path, ev.to_string_pretty()) {
        eprintln!("HARNESS-ERROR cannot write {}: {e}", path.display());
        return 2;
    }
    println!("flipdot-sim: property={} runs={} violations={} wall={:.1}s evidence={}", prop.id, total_runs, violations, wall, path.display());
    exit
}

fn scn_expected_probes(scn: &dyn Scenario, _tier: Tier) -> Vec<&'static str> {
    scen::expected_probes(scn.name())
}
