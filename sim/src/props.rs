//! Per-property metadata that goes into the evidence files.

pub struct Prop {
    pub id: &'static str,
    pub title: &'static str,
    pub level: &'static str,
    pub exhaustive: bool,
    pub rule: &'static str,
    pub real: &'static [&'static str],
    pub stubs: &'static [&'static str],
    pub assumptions: &'static [&'static str],
}

const COMMON_ASSUMPTIONS: &[&str] = &[
    "sampling, not proof: a clean batch is evidence for the explored runs only",
    "flipdot is compiled from /repo's working tree with --cfg flipdot_verif, opt-level 2, overflow-checks and debug-assertions on",
    "no logger is installed, so log macros are no-ops",
];

pub fn all() -> Vec<Prop> {
    vec![
        Prop {
            id: "C12",
            title: "A virtual sign never panics, whatever is sent on the bus",
            level: "exploration",
            exhaustive: false,
            rule: "one evaluation = one seeded run: 1-3 real VirtualSigns on a real VirtualSignBus receive up to ~300 messages from real Sign controllers behind the fault-injecting bus and from a state-aware raw generator over the whole alphabet (plus flood runs of >65535 chunks); every delivery is under catch_unwind. A run is non-trivial when at least 5 messages were delivered; distinct = distinct event-log hashes (every message and reply is in the log) among non-trivial runs. distinct_primary_measure = distinct VirtualSignBus values (derived Hash) reached.",
            real: &["VirtualSignBus", "VirtualSign", "Page::from_bytes", "SignType::from_bytes", "Sign (traffic source)", "Message", "Data"],
            stubs: &["FaultyBus (fault injector)", "raw message generator", "SignModel (only steers the generator in this check)"],
            assumptions: COMMON_ASSUMPTIONS,
        },
        Prop {
            id: "C13",
            title: "Virtual sign implements the sign-side protocol state machine",
            level: "exploration",
            exhaustive: false,
            rule: "one evaluation = one seeded run with the same traffic as C12; after every delivered message the real signs' reply, state(), sign_type() and pages() are compared with the executable reference state machine (SignModel). Non-trivial = at least 5 messages delivered; distinct = distinct event-log hashes among those. distinct_primary_measure = distinct VirtualSignBus values reached; distinct_secondary_measure = distinct (model state, message class) transitions exercised.",
            real: &["VirtualSignBus", "VirtualSign", "Page", "SignType::from_bytes", "Sign (traffic source)"],
            stubs: &["FaultyBus (fault injector)", "raw message generator", "SignModel (reference model, the oracle)"],
            assumptions: &[
                "sampling, not proof: a clean batch is evidence for the explored runs only",
                "the reference model's legality table (which operation is acknowledged in which state) is a reviewed transcription of the pinned tree; see DESIGN.md C13",
                "transfers stay below 65536 chunks (the counter width is not fixed by the property)",
                "flipdot is compiled from /repo's working tree with --cfg flipdot_verif, opt-level 2, overflow-checks and debug-assertions on",
            ],
        },
    ]
}
