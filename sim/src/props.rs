//! Per-property metadata that goes into the evidence files.

pub struct Prop {
    pub id: &'static str,
    pub title: &'static str,
    pub level: &'static str,
    pub exhaustive: bool,
    pub rule: &'static str,
    pub real: &'static [&'static str],
    pub stubs: &'static [&'static str],
    pub assumptions: &'static [&'static str],
}

const COMMON_ASSUMPTIONS: &[&str] = &[
    "sampling, not proof: a clean batch is evidence for the explored runs only",
    "flipdot is compiled from /repo's working tree with --cfg flipdot_verif, opt-level 2, overflow-checks and debug-assertions on",
    "no logger is installed, so log macros are no-ops",
];

pub fn all() -> Vec<Prop> {
    vec![
        Prop {
            id: "C08",
            title: "Pages sent through the controller arrive bit-exact, from any prior sign state",
            level: "exploration",
            exhaustive: false,
            rule: "one evaluation = one seeded run. Phase A: 0-8 segments of real Sign controllers (any of the 11 types, 1-4 operations each) through the fault-injecting bus with controller crashes at drawn message indices, mixed with state-aware raw traffic, leave 1-3 real VirtualSigns in arbitrary states. Phase B (faults off): a fresh real Sign configures (or configure_if_needed where the property's precondition holds), sends 0-4 pages (pixel API and arbitrary bytes), flips, optionally shuts down and repeats; every post-condition of the property is asserted on the real sign. Non-trivial = phase B reached; distinct = distinct event-log hashes among those. distinct_secondary_measure = distinct (prior VirtualSign value, target type) pairs.",
            real: &["Sign", "VirtualSignBus", "VirtualSign", "Page", "SignType"],
            stubs: &["FaultyBus (phase A only)", "raw message generator (phase A only)", "DirectBus (pass-through SignBus in phase B)"],
            assumptions: COMMON_ASSUMPTIONS,
        },
        Prop {
            id: "C09",
            title: "Controller data transfers are complete, ordered, correctly offset and counted",
            level: "exploration",
            exhaustive: false,
            rule: "one evaluation = one seeded run of 1-7 configure/send_pages calls of the real Sign, each call's recorded message history checked attempt by attempt (ack before data, chunk offsets 0,16,32.. per item, concatenation equals the item, count equals chunks since the request, query only after the count, config block = SignType::to_bytes). Failure reports come from the real VirtualSign under chunk-level faults (scenario c09-real-sign) or from a stub replier scripted by the tape (scenario c09-stub-replier: arbitrary page sizes up to one 65536-byte item). Non-trivial = every run; distinct = distinct event-log hashes.",
            real: &["Sign", "Page", "SignType::to_bytes", "VirtualSignBus + VirtualSign (c09-real-sign)"],
            stubs: &["RecordingBus", "FaultyBus (chunk-level faults)", "StubSign replier (c09-stub-replier)"],
            assumptions: &[
                "sampling, not proof",
                "SignType::to_bytes is taken as the definition of 'the block of the controller's sign type'",
                "total chunks per attempt stay below 65536 (16-bit count field)",
                "flipdot is compiled from /repo's working tree with --cfg flipdot_verif, opt-level 2, overflow-checks and debug-assertions on",
            ],
        },
        Prop {
            id: "C10",
            title: "Controller follows the documented protocol for every possible sign reply",
            level: "exploration",
            exhaustive: false,
            rule: "one evaluation = one seeded call (configure, configure_if_needed, send_pages with 0-3 pages, show_loaded_page, load_next_page, shut_down; all 11 sign types, addresses across the range) of the real Sign against the adversarial bus; at every message the controller must emit exactly what the executable reference model of the documented protocol prescribes for the replies so far, and the call must end exactly when and how the model ends. Non-trivial = every run; distinct = distinct event-log hashes. distinct_primary_measure = distinct whole conversations (call, message hashes, reply classes); distinct_secondary_measure = distinct (model location x reply class) pairs hit.",
            real: &["Sign", "Page", "SignType::to_bytes"],
            stubs: &["AdversarialBus (draws every reply)", "ControllerModel (reference model, the oracle)"],
            assumptions: &[
                "sampling, not proof",
                "the reference model pins the current behaviour at the three points where the documentation leaves a choice (marked in DESIGN.md C10): any non-own-Unconfigured/ReadyToReset first reply triggers a full reset; configure_if_needed re-sends Hello; any final reply other than own ShowingPages means Manual",
                "polling loops are bounded by the adversary (at most 8 consecutive in-progress answers, only protocol-advancing replies after 120 messages)",
                "flipdot is compiled from /repo's working tree with --cfg flipdot_verif, opt-level 2, overflow-checks and debug-assertions on",
            ],
        },
        Prop {
            id: "C11",
            title: "Controller: no unconfirmed success, fail-stop, bounded retries, own address only",
            level: "exploration",
            exhaustive: false,
            rule: "same runs as C10 (own seed stream), judged by invariants over the recorded conversation only (I1 own address on every addressed message, I2 bus error is final and propagated, I3 a reply outside the allowed set for its position is final and reported as a protocol error, I4 at most 3 attempts and retries only after own 'failed', I5 success only after own 'received', I6 a foreign address never has the effect of the own one). The reference model is used only to bias the adversary towards long conversations, never as the oracle. Non-trivial = every run; distinct = distinct event-log hashes.",
            real: &["Sign", "Page", "SignType::to_bytes"],
            stubs: &["AdversarialBus (draws every reply)", "conversation invariant checker (the oracle)", "ControllerModel (steers the adversary only)"],
            assumptions: &[
                "sampling, not proof",
                "allowed reply sets per position are derived from the emitted messages only (DESIGN.md C11)",
                "flipdot is compiled from /repo's working tree with --cfg flipdot_verif, opt-level 2, overflow-checks and debug-assertions on",
            ],
        },
        Prop {
            id: "C12",
            title: "A virtual sign never panics, whatever is sent on the bus",
            level: "exploration",
            exhaustive: false,
            rule: "one evaluation = one seeded run: 1-3 real VirtualSigns on a real VirtualSignBus receive up to ~300 messages from real Sign controllers behind the fault-injecting bus and from a state-aware raw generator over the whole alphabet (plus flood runs of >65535 chunks); every delivery is under catch_unwind. A run is non-trivial when at least 5 messages were delivered; distinct = distinct event-log hashes (every message and reply is in the log) among non-trivial runs. distinct_primary_measure = distinct VirtualSignBus values (derived Hash) reached.",
            real: &["VirtualSignBus", "VirtualSign", "Page::from_bytes", "SignType::from_bytes", "Sign (traffic source)", "Message", "Data"],
            stubs: &["FaultyBus (fault injector)", "raw message generator", "SignModel (only steers the generator in this check)"],
            assumptions: COMMON_ASSUMPTIONS,
        },
        Prop {
            id: "C13",
            title: "Virtual sign implements the sign-side protocol state machine",
            level: "exploration",
            exhaustive: false,
            rule: "one evaluation = one seeded run with the same traffic as C12; after every delivered message the real signs' reply, state(), sign_type() and pages() are compared with the executable reference state machine (SignModel). Non-trivial = at least 5 messages delivered; distinct = distinct event-log hashes among those. distinct_primary_measure = distinct VirtualSignBus values reached; distinct_secondary_measure = distinct (model state, message class) transitions exercised.",
            real: &["VirtualSignBus", "VirtualSign", "Page", "SignType::from_bytes", "Sign (traffic source)"],
            stubs: &["FaultyBus (fault injector)", "raw message generator", "SignModel (reference model, the oracle)"],
            assumptions: &[
                "sampling, not proof: a clean batch is evidence for the explored runs only",
                "the reference model's legality table (which operation is acknowledged in which state) is a reviewed transcription of the pinned tree; see DESIGN.md C13",
                "transfers stay below 65536 chunks (the counter width is not fixed by the property)",
                "flipdot is compiled from /repo's working tree with --cfg flipdot_verif, opt-level 2, overflow-checks and debug-assertions on",
            ],
        },
    ]
}
