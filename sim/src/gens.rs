//! Tape-driven generators. In every generator the tape value 0 selects the simplest case.

use flipdot_core::{Address, ChunkCount, Data, Frame, Message, MsgType, Offset, Operation, Page, PageFlipStyle, PageId, SignType, State};

use crate::core::Cx;

/// All sign types, smallest page first.
pub const ALL_TYPES: [SignType; 11] = [
    SignType::Max3000Dash30x7,    // 48 bytes, 3 chunks
    SignType::Max3000Rear23x10,   // 64 bytes, 4 chunks
    SignType::Max3000Rear30x10,   // 64 bytes (data ends exactly on a 16-byte boundary)
    SignType::HorizonDash40x12,   // 96
    SignType::Max3000Side90x7,    // 96
    SignType::HorizonSide96x8,    // 112
    SignType::HorizonRear48x16,   // 112
    SignType::Max3000Front98x16,  // 208
    SignType::Max3000Front112x16, // 240
    SignType::HorizonFront140x16, // 288
    SignType::HorizonFront160x16, // 336
];

pub const ALL_STATES: [State; 13] = [
    State::Unconfigured,
    State::ConfigInProgress,
    State::ConfigReceived,
    State::ConfigFailed,
    State::PixelsInProgress,
    State::PixelsReceived,
    State::PixelsFailed,
    State::PageLoaded,
    State::PageLoadInProgress,
    State::PageShown,
    State::PageShowInProgress,
    State::ShowingPages,
    State::ReadyToReset,
];

pub const ALL_OPS: [Operation; 6] = [
    Operation::ReceiveConfig,
    Operation::ReceivePixels,
    Operation::ShowLoadedPage,
    Operation::LoadNextPage,
    Operation::StartReset,
    Operation::FinishReset,
];

pub fn state_index(s: State) -> usize {
    ALL_STATES.iter().position(|x| *x == s).unwrap_or(99)
}

pub fn op_index(o: Operation) -> usize {
    ALL_OPS.iter().position(|x| *x == o).unwrap_or(99)
}

pub fn padded_page_len(w: u32, h: u32) -> usize {
    let data = 4 + w as usize * ((h as usize + 7) / 8);
    (data + 15) / 16 * 16
}

/// Sign type, biased towards the small ones (cheap transfers) but reaching all 11.
pub fn sign_type(cx: &Cx) -> SignType {
    if cx.chance(3, 4) { ALL_TYPES[cx.draw(5) as usize] } else { ALL_TYPES[cx.draw(11) as usize] }
}

pub fn any_sign_type(cx: &Cx) -> SignType {
    ALL_TYPES[cx.draw(11) as usize]
}

const ADDRS: [u16; 10] = [3, 0, 1, 0x7F, 0x80, 0xFF, 0x100, 0x1234, 0xFFFE, 0xFFFF];

pub fn address(cx: &Cx) -> Address {
    let i = cx.draw(ADDRS.len() as u64 + 2) as usize;
    if i < ADDRS.len() { Address(ADDRS[i]) } else { Address(cx.draw(0x1_0000) as u16) }
}

/// `n` distinct addresses.
pub fn distinct_addresses(cx: &Cx, n: usize) -> Vec<Address> {
    let mut out: Vec<Address> = Vec::new();
    while out.len() < n {
        // now and then an address that shares its low byte, or its high byte, with an earlier
        // one (a comparison on half of the address would confuse the two)
        let a = if !out.is_empty() && cx.chance(1, 4) {
            let b = *cx.pick(&out);
            if cx.chance(1, 2) { Address(b.0 ^ 0x0100 ^ ((cx.draw(4) as u16) << 9)) } else { Address(b.0 ^ (1 + cx.draw(255) as u16)) }
        } else {
            address(cx)
        };
        if !out.contains(&a) {
            out.push(a);
        } else {
            // Guaranteed progress: fall back to the next free value.
            let mut v = a.0.wrapping_add(1);
            while out.contains(&Address(v)) {
                v = v.wrapping_add(1);
            }
            out.push(Address(v));
        }
    }
    out
}

/// An address different from all in `taken`.
pub fn other_address(cx: &Cx, taken: &[Address]) -> Address {
    // sometimes a near miss: same low byte or same high byte as a taken address
    let mut a = if !taken.is_empty() && cx.chance(1, 4) {
        let b = *cx.pick(taken);
        match cx.draw(3) {
            0 => Address(b.0 ^ 0x0100),
            1 => Address(b.0 ^ 0x0001),
            // the same two bytes the other way round
            _ => Address(b.0.swap_bytes()),
        }
    } else {
        address(cx)
    };
    while taken.contains(&a) {
        a = Address(a.0.wrapping_add(1 + cx.draw(7) as u16));
    }
    a
}

pub fn flip_style(cx: &Cx) -> PageFlipStyle {
    if cx.draw(2) == 0 { PageFlipStyle::Manual } else { PageFlipStyle::Automatic }
}

/// A page of the given size: built through the pixel API, or over arbitrary bytes
/// (arbitrary id, header bytes and padding).
pub fn page(cx: &Cx, w: u32, h: u32) -> Page<'static> {
    match cx.draw(4) {
        0 => Page::new(PageId(cx.draw(256) as u8), w, h),
        1 => {
            let mut p = Page::new(PageId(cx.draw(256) as u8), w, h);
            if w > 0 && h > 0 {
                let n = cx.draw(24);
                for _ in 0..n {
                    let x = cx.draw(u64::from(w)) as u32;
                    let y = cx.draw(u64::from(h)) as u32;
                    p.set_pixel(x, y, true);
                }
            }
            p
        }
        2 => {
            let mut p = Page::new(PageId(cx.draw(256) as u8), w, h);
            p.set_all_pixels(true);
            if w > 0 && h > 0 {
                // ... with a few pixels switched off again
                for _ in 0..cx.draw(4) {
                    let x = cx.draw(u64::from(w)) as u32;
                    let y = cx.draw(u64::from(h)) as u32;
                    p.set_pixel(x, y, false);
                }
            }
            p
        }
        _ => {
            if cx.chance(1, 6) {
                // offer a buffer of another length (over-long mostly): documented to be refused, but
                // whatever page a tree hands out is a page a caller can send
                let want = padded_page_len(w, h);
                let n = if cx.chance(1, 4) { want.saturating_sub(1 + cx.draw(16) as usize) } else { want + 1 + cx.draw(40) as usize };
                if let Ok(p) = Page::from_bytes(w, h, cx.bytes(n)) {
                    cx.probe("from_bytes_accepted_undocumented_length");
                    return p;
                }
            }
            let bytes = payload(cx, padded_page_len(w, h));
            match Page::from_bytes(w, h, bytes) {
                Ok(p) => p,
                Err(_) => {
                    // A tree whose layout arithmetic disagrees with the documented one: not this
                    // generator's business (and never a reason to stop); fall back to the pixel API.
                    cx.probe("from_bytes_rejected_documented_length");
                    Page::new(PageId(cx.draw(256) as u8), w, h)
                }
            }
        }
    }
}

pub fn pages(cx: &Cx, t: SignType, max: u64) -> Vec<Page<'static>> {
    let (w, h) = t.dimensions();
    let n = cx.draw(max + 1);
    let mut out: Vec<Page<'static>> = Vec::new();
    for _ in 0..n {
        // now and then the same page again, byte for byte (same id, same pixels): mostly twice in a
        // row, sometimes with other pages in between
        if !out.is_empty() && cx.chance(1, 6) {
            let k = if cx.chance(1, 3) { cx.draw(out.len() as u64) as usize } else { out.len() - 1 };
            let again = out[k].clone();
            out.push(again);
        } else {
            out.push(page(cx, w, h));
        }
    }
    out
}

/// Payload bytes: random mostly; one time in eight a single repeated byte (all-zero, all-0xFF, a
/// byte that is also a protocol constant), one time in eight random bytes salted with such constants
/// (':' CR LF, the chunk size, 0x00, 0xFF). Content-dependent shortcuts in the code under test meet
/// exactly the content they look for.
pub fn payload(cx: &Cx, n: usize) -> Vec<u8> {
    const SPECIAL: [u8; 10] = [0x00, 0xFF, 0x3A, 0x0D, 0x0A, 0x10, 0x7F, 0x80, 0x55, 0x0F];
    match cx.draw(8) {
        7 => {
            cx.probe("payload_of_one_repeated_byte");
            vec![*cx.pick(&SPECIAL); n]
        }
        6 => {
            let mut b = cx.bytes(n);
            for x in b.iter_mut() {
                if cx.chance(1, 3) {
                    *x = *cx.pick(&SPECIAL);
                }
            }
            b
        }
        _ => cx.bytes(n),
    }
}

pub fn data(bytes: Vec<u8>) -> Data<'static> {
    Data::try_new(bytes).expect("at most 255 bytes")
}

/// Deep copy of a message into one that owns its data.
pub fn to_static(m: &Message<'_>) -> Message<'static> {
    match m {
        Message::SendData(o, d) => Message::SendData(*o, data(d.get().to_vec())),
        Message::DataChunksSent(c) => Message::DataChunksSent(*c),
        Message::Hello(a) => Message::Hello(*a),
        Message::QueryState(a) => Message::QueryState(*a),
        Message::ReportState(a, s) => Message::ReportState(*a, *s),
        Message::RequestOperation(a, o) => Message::RequestOperation(*a, *o),
        Message::AckOperation(a, o) => Message::AckOperation(*a, *o),
        Message::PixelsComplete(a) => Message::PixelsComplete(*a),
        Message::Goodbye(a) => Message::Goodbye(*a),
        Message::Unknown(f) => Message::Unknown(Frame::new(f.address(), f.message_type(), data(f.data().to_vec()))),
        other => {
            // Message is non-exhaustive: go through the frame for any future variant.
            let f = Frame::from(other.clone());
            Message::from(Frame::new(f.address(), f.message_type(), data(f.data().to_vec())))
        }
    }
}

/// Short printable form for traces.
pub fn show(m: &Message<'_>) -> String {
    match m {
        Message::SendData(o, d) => {
            let b = d.get();
            if b.len() <= 16 { format!("SendData({:#06x}, {:02x?})", o.0, &b[..]) } else { format!("SendData({:#06x}, {} bytes {:02x?}..)", o.0, b.len(), &b[..8]) }
        }
        Message::Unknown(f) => format!("Unknown(addr={:#06x}, type={}, {} bytes)", f.address().0, f.message_type().0, f.data().len()),
        other => format!("{other:?}"),
    }
}

pub fn show_opt(m: &Option<Message<'_>>) -> String {
    match m {
        None => "None".to_string(),
        Some(m) => show(m),
    }
}

/// A frame that does not decode to any specific message.
pub fn unknown_frame(cx: &Cx) -> Frame<'static> {
    loop {
        if cx.chance(1, 4) {
            // a near miss of a one-byte command: the frame of a real message with one to three bytes
            // appended (known type, first data byte a valid code, wrong length: still not a message)
            let a = address(cx);
            let m = match cx.draw(7) {
                0 => Message::Hello(a),
                1 => Message::QueryState(a),
                2 => Message::Goodbye(a),
                3 => Message::RequestOperation(a, ALL_OPS[cx.draw(6) as usize]),
                4 => Message::ReportState(a, ALL_STATES[cx.draw(13) as usize]),
                5 => Message::AckOperation(a, ALL_OPS[cx.draw(6) as usize]),
                _ => Message::PixelsComplete(a),
            };
            let f = Frame::from(m);
            let mut d = f.data().to_vec();
            for _ in 0..1 + cx.draw(3) {
                d.push(*cx.pick(&[0u8, 0x55, 0xFF, 0x01]));
            }
            let g = Frame::new(f.address(), f.message_type(), data(d));
            // Not a message by construction (the one-byte commands have exactly one data byte); the tree's
            // own conversion is deliberately not asked: a tree that takes such a frame for the command
            // would filter out the very frames that show it.
            cx.probe("unknown_frame_one_byte_command_with_trailing_bytes");
            return g;
        }
        let ty = *cx.pick(&[7u8, 0, 1, 2, 3, 4, 5, 6, 0x80, 0xFF]);
        let len = *cx.pick(&[0usize, 1, 2, 3, 16, 255]);
        let f = Frame::new(address(cx), MsgType(ty), data(payload(cx, len)));
        if matches!(Message::from(f.clone()), Message::Unknown(_)) {
            return f;
        }
    }
}

/// A 16-byte configuration block with arbitrary fields. `kind`: 0 = real type, 1 = Max3000
/// family with arbitrary bytes, 2 = Horizon family with arbitrary bytes, 3 = other family,
/// 4 = tiny custom Horizon (one or two chunks per page), 5 = tiny custom Max3000.
pub fn config_block(cx: &Cx) -> Vec<u8> {
    match cx.draw(7) {
        6 => {
            // arbitrary small dimensions in either family: pages of 1-13 chunks that are none of
            // the 11 built-in sizes
            let mut b = vec![0u8; 16];
            b[1] = cx.draw(256) as u8;
            let w = 1 + cx.draw(40) as u8;
            let h = 1 + cx.draw(40) as u8;
            if cx.chance(1, 2) {
                b[0] = 0x08;
                b[5] = h;
                b[7] = w;
            } else {
                b[0] = 0x04;
                b[4] = h;
                let parts = 1 + cx.draw(4) as usize;
                let mut left = w;
                for i in 0..parts {
                    let take = if i + 1 == parts { left } else { cx.draw(u64::from(left) + 1) as u8 };
                    b[5 + i] = take;
                    left -= take;
                }
            }
            b
        }
        0 => sign_type(cx).to_bytes().to_vec(),
        1 => {
            let mut b = cx.bytes(16);
            b[0] = 0x04;
            if cx.chance(1, 2) {
                // make large widths likely: sums above 255
                for i in 5..9 {
                    b[i] = 128 + (b[i] & 0x7F);
                }
            } else if cx.chance(1, 2) {
                // small panels with an empty slot somewhere in the list (also before a used one)
                for i in 5..9 {
                    b[i] &= 0x0F;
                }
                b[5 + cx.draw(4) as usize] = 0;
                b[4] = 1 + (b[4] & 0x0F);
            }
            b
        }
        2 => {
            let mut b = cx.bytes(16);
            b[0] = 0x08;
            // each dimension byte zero now and then while the rest of the block is arbitrary
            if cx.chance(1, 6) {
                b[7] = 0;
            }
            if cx.chance(1, 12) {
                b[5] = 0;
            }
            b
        }
        3 => {
            let mut b = cx.bytes(16);
            if b[0] == 4 || b[0] == 8 {
                b[0] = 5;
            }
            b
        }
        4 => {
            // Horizon: width = byte 7, height = byte 5.
            let mut b = vec![0u8; 16];
            b[0] = 0x08;
            b[1] = cx.draw(256) as u8;
            b[5] = *cx.pick(&[8u8, 1, 7, 9, 16, 0]);
            b[7] = *cx.pick(&[12u8, 1, 6, 13, 28, 0]);
            b
        }
        _ => {
            // Max3000: width = bytes 5..9 summed, height = byte 4.
            let mut b = vec![0u8; 16];
            b[0] = 0x04;
            b[1] = cx.draw(256) as u8;
            b[4] = *cx.pick(&[8u8, 1, 7, 9, 16, 0]);
            b[5] = *cx.pick(&[12u8, 6, 0, 3]);
            b[6] = *cx.pick(&[0u8, 6, 16]);
            b[7] = *cx.pick(&[0u8, 1]);
            b[8] = *cx.pick(&[0u8, 255]);
            b
        }
    }
}

/// The (width, height) a sign must derive from a 16-byte block, per the documented layout.
pub fn config_dims(b: &[u8]) -> Option<(u32, u32)> {
    if b.len() != 16 {
        return None;
    }
    match b[0] {
        0x04 => Some((u32::from(b[5]) + u32::from(b[6]) + u32::from(b[7]) + u32::from(b[8]), u32::from(b[4]))),
        0x08 => Some((u32::from(b[7]), u32::from(b[5]))),
        _ => None,
    }
}

pub fn chunk_len(cx: &Cx) -> usize {
    // the usual sizes mostly; one time in five any length up to the maximum (the middle of the range)
    if cx.chance(1, 5) { cx.draw(256) as usize } else { *cx.pick(&[16usize, 0, 1, 15, 17, 32, 96, 255, 2, 8]) }
}

/// A message from the whole alphabet (controller→sign, sign→controller, unknown), any address.
pub fn raw_message(cx: &Cx, addrs: &[Address]) -> Message<'static> {
    let addr = |cx: &Cx| -> Address {
        if !addrs.is_empty() && cx.chance(3, 4) { *cx.pick(addrs) } else { address(cx) }
    };
    match cx.draw(12) {
        0 => Message::QueryState(addr(cx)),
        1 => Message::Hello(addr(cx)),
        2 => Message::RequestOperation(addr(cx), ALL_OPS[cx.draw(6) as usize]),
        3 => {
            let off = if cx.chance(1, 2) { 0 } else if cx.chance(1, 2) { 16 } else { cx.draw(0x1_0000) as u16 };
            let n = chunk_len(cx);
            Message::SendData(Offset(off), data(payload(cx, n)))
        }
        4 => Message::DataChunksSent(ChunkCount(cx.draw(8) as u16)),
        5 => Message::PixelsComplete(addr(cx)),
        6 => Message::Goodbye(addr(cx)),
        7 => Message::SendData(Offset(0), data(config_block(cx))),
        8 => Message::ReportState(addr(cx), ALL_STATES[cx.draw(13) as usize]),
        9 => Message::AckOperation(addr(cx), ALL_OPS[cx.draw(6) as usize]),
        10 => Message::Unknown(unknown_frame(cx)),
        _ => Message::DataChunksSent(ChunkCount(cx.draw(0x1_0000) as u16)),
    }
}
