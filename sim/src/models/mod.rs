pub mod controller;
pub mod sign;
