pub mod sign;
