//! Executable reference model of the sign-side protocol state machine (C13, and the shadow in
//! other scenarios). Written from the doc comments of `virtual_sign_bus.rs` / `message.rs` and
//! the text of property C13; it never calls the code it models.

use flipdot_core::{Address, Message, Operation, PageFlipStyle, SignType, State};

use crate::gens::{config_dims, padded_page_len};

#[derive(Clone, Debug, PartialEq, Eq, Hash)]
pub struct ModelPage {
    pub w: u32,
    pub h: u32,
    pub bytes: Vec<u8>,
}

#[derive(Clone, Debug, PartialEq, Eq, Hash)]
pub struct SignModel {
    pub address: Address,
    pub flip: PageFlipStyle,
    pub state: State,
    pub sign_type: Option<SignType>,
    pub w: u32,
    pub h: u32,
    pub pages: Vec<ModelPage>,
    pub pending: Vec<u8>,
    /// Chunks accepted since the last count message / reset (unbounded in the model).
    pub chunks: u32,
}

impl SignModel {
    pub fn new(address: Address, flip: PageFlipStyle) -> Self {
        SignModel { address, flip, state: State::Unconfigured, sign_type: None, w: 0, h: 0, pages: vec![], pending: vec![], chunks: 0 }
    }

    fn blank(&mut self) {
        self.state = State::Unconfigured;
        self.sign_type = None;
        self.w = 0;
        self.h = 0;
        self.pages.clear();
        self.pending.clear();
        self.chunks = 0;
    }

    /// Closes the page being assembled: it is stored iff it is a complete page of the configured size.
    fn close_page(&mut self) {
        if self.pending.is_empty() {
            return;
        }
        let bytes = std::mem::take(&mut self.pending);
        if self.w > 0 && self.h > 0 && bytes.len() == padded_page_len(self.w, self.h) {
            self.pages.push(ModelPage { w: self.w, h: self.h, bytes });
        }
    }

    pub fn op_legal(&self, op: Operation) -> bool {
        match op {
            Operation::ReceiveConfig => matches!(self.state, State::Unconfigured | State::ConfigFailed),
            Operation::ReceivePixels => matches!(
                self.state,
                State::ConfigReceived
                    | State::PixelsFailed
                    | State::PageLoaded
                    | State::PageLoadInProgress
                    | State::PageShown
                    | State::PageShowInProgress
                    | State::ShowingPages
            ),
            Operation::ShowLoadedPage => self.state == State::PageLoaded,
            Operation::LoadNextPage => self.state == State::PageShown,
            Operation::StartReset => true,
            Operation::FinishReset => self.state == State::ReadyToReset,
            _ => false,
        }
    }

    pub fn step(&mut self, m: &Message<'_>) -> Option<Message<'static>> {
        match m {
            Message::Hello(a) | Message::QueryState(a) if *a == self.address => {
                let reported = self.state;
                match reported {
                    State::PageLoadInProgress => self.state = State::PageLoaded,
                    State::PageShowInProgress => self.state = State::PageShown,
                    _ => {}
                }
                Some(Message::ReportState(self.address, reported))
            }
            Message::RequestOperation(a, op) if *a == self.address => {
                if !self.op_legal(*op) {
                    return None;
                }
                match op {
                    Operation::ReceiveConfig => self.state = State::ConfigInProgress,
                    Operation::ReceivePixels => {
                        self.state = State::PixelsInProgress;
                        self.pages.clear();
                    }
                    Operation::ShowLoadedPage => self.state = State::PageShowInProgress,
                    Operation::LoadNextPage => self.state = State::PageLoadInProgress,
                    Operation::StartReset => self.state = State::ReadyToReset,
                    Operation::FinishReset => self.blank(),
                    _ => return None,
                }
                Some(Message::AckOperation(self.address, *op))
            }
            Message::SendData(off, d) => {
                let d = d.get();
                match self.state {
                    State::ConfigInProgress => {
                        if off.0 == 0 && d.len() == 16 {
                            if let Some((w, h)) = config_dims(d) {
                                self.w = w;
                                self.h = h;
                                self.sign_type = SignType::from_bytes(d).ok();
                                self.chunks += 1;
                            }
                        }
                    }
                    State::PixelsInProgress => {
                        if off.0 == 0 {
                            self.close_page();
                        }
                        self.pending.extend_from_slice(d);
                        self.chunks += 1;
                    }
                    _ => {}
                }
                None
            }
            Message::DataChunksSent(n) => {
                // Unaddressed: only a sign that is receiving takes notice (property C14).
                let ok = u32::from(n.0) == self.chunks;
                match self.state {
                    State::ConfigInProgress => self.state = if ok { State::ConfigReceived } else { State::ConfigFailed },
                    State::PixelsInProgress => self.state = if ok { State::PixelsReceived } else { State::PixelsFailed },
                    _ => return None,
                }
                self.close_page();
                self.chunks = 0;
                None
            }
            Message::PixelsComplete(a) if *a == self.address => {
                if self.state == State::PixelsReceived {
                    self.state = match self.flip {
                        PageFlipStyle::Automatic => State::ShowingPages,
                        PageFlipStyle::Manual => State::PageLoaded,
                    };
                }
                None
            }
            Message::Goodbye(a) if *a == self.address => {
                self.blank();
                None
            }
            _ => None,
        }
    }
}
