//! Executable reference model of the controller-side protocol (C10), written from the doc
//! comments of `src/sign.rs`. It is driven in lock-step: `expected()` is the message the
//! documented protocol prescribes next, `on_reply()` advances on what the bus answered.
//!
//! Pinned choices where the prose leaves room are marked (†), see DESIGN.md C10.

use flipdot_core::{Address, ChunkCount, Message, Offset, Operation, State};

use crate::gens;
use crate::ops::Outcome;

#[derive(Clone, Debug, PartialEq, Eq, Hash)]
pub enum Call {
    Configure,
    ConfigureIfNeeded,
    SendPages,
    Show,
    LoadNext,
    ShutDown,
}

#[derive(Clone, Debug)]
pub enum BusReply {
    Msg(Option<Message<'static>>),
    Err,
}

#[derive(Clone, Copy, Debug, PartialEq, Eq, Hash)]
pub enum Loc {
    CinHello,
    Hello1,
    StartResetAck,
    HelloAfterStart,
    FinishResetAck,
    HelloAfterFinish,
    RequestAck,
    Chunk,
    Count,
    ResultQuery,
    PixelsComplete,
    FinalQuery,
    Poll,
    SwitchAck,
    Goodbye,
    Done,
}

#[derive(Clone, Debug)]
pub struct ControllerModel {
    pub addr: Address,
    pub call: Call,
    /// Items of the transfer this call may perform (config block, or the pages).
    pub items: Vec<Vec<u8>>,
    chunks: Vec<(u16, Vec<u8>)>,
    pub loc: Loc,
    attempt: u32,
    chunk_idx: usize,
    pub outcome: Option<Outcome>,
    /// Consecutive poll rounds (for coverage only).
    pub polls: u32,
}

const READY: [State; 6] =
    [State::ConfigReceived, State::ShowingPages, State::PageLoaded, State::PageShowInProgress, State::PageShown, State::PageLoadInProgress];

impl ControllerModel {
    pub fn new(addr: Address, call: Call, items: Vec<Vec<u8>>) -> Self {
        let mut chunks = Vec::new();
        for it in &items {
            let mut off = 0usize;
            while off < it.len() {
                let end = (off + 16).min(it.len());
                chunks.push((off as u16, it[off..end].to_vec()));
                off = end;
            }
        }
        let loc = match call {
            Call::Configure => Loc::Hello1,
            Call::ConfigureIfNeeded => Loc::CinHello,
            Call::SendPages => Loc::RequestAck,
            Call::Show | Call::LoadNext => Loc::Poll,
            Call::ShutDown => Loc::Goodbye,
        };
        ControllerModel { addr, call, items, chunks, loc, attempt: 1, chunk_idx: 0, outcome: None, polls: 0 }
    }

    fn transfer_op(&self) -> Operation {
        match self.call {
            Call::SendPages => Operation::ReceivePixels,
            _ => Operation::ReceiveConfig,
        }
    }
    fn ok_state(&self) -> State {
        match self.call {
            Call::SendPages => State::PixelsReceived,
            _ => State::ConfigReceived,
        }
    }
    fn failed_state(&self) -> State {
        match self.call {
            Call::SendPages => State::PixelsFailed,
            _ => State::ConfigFailed,
        }
    }
    fn switch(&self) -> (State, State, Operation) {
        match self.call {
            Call::Show => (State::PageShown, State::PageLoaded, Operation::ShowLoadedPage),
            _ => (State::PageLoaded, State::PageShown, Operation::LoadNextPage),
        }
    }

    /// Number of data chunks one attempt of this call's transfer sends.
    pub fn chunk_total(&self) -> usize {
        self.chunks.len()
    }

    pub fn done(&self) -> bool {
        self.loc == Loc::Done
    }

    /// The message the documented protocol prescribes now (None once the call is over).
    pub fn expected(&self) -> Option<Message<'static>> {
        let a = self.addr;
        Some(match self.loc {
            Loc::CinHello | Loc::Hello1 | Loc::HelloAfterStart | Loc::HelloAfterFinish => Message::Hello(a),
            Loc::StartResetAck => Message::RequestOperation(a, Operation::StartReset),
            Loc::FinishResetAck => Message::RequestOperation(a, Operation::FinishReset),
            Loc::RequestAck => Message::RequestOperation(a, self.transfer_op()),
            Loc::Chunk => {
                let (off, bytes) = &self.chunks[self.chunk_idx];
                Message::SendData(Offset(*off), gens::data(bytes.clone()))
            }
            Loc::Count => Message::DataChunksSent(ChunkCount(self.chunks.len() as u16)),
            Loc::ResultQuery | Loc::FinalQuery | Loc::Poll => Message::QueryState(a),
            Loc::PixelsComplete => Message::PixelsComplete(a),
            Loc::SwitchAck => Message::RequestOperation(a, self.switch().2),
            Loc::Goodbye => Message::Goodbye(a),
            Loc::Done => return None,
        })
    }

    /// The reply that keeps the protocol going towards success from here.
    pub fn good_reply(&self) -> BusReply {
        let a = self.addr;
        BusReply::Msg(match self.loc {
            Loc::CinHello | Loc::Hello1 | Loc::HelloAfterFinish => Some(Message::ReportState(a, State::Unconfigured)),
            Loc::HelloAfterStart => Some(Message::ReportState(a, State::ReadyToReset)),
            Loc::StartResetAck => Some(Message::AckOperation(a, Operation::StartReset)),
            Loc::FinishResetAck => Some(Message::AckOperation(a, Operation::FinishReset)),
            Loc::RequestAck => Some(Message::AckOperation(a, self.transfer_op())),
            Loc::Chunk | Loc::Count | Loc::PixelsComplete | Loc::Goodbye => None,
            Loc::ResultQuery => Some(Message::ReportState(a, self.ok_state())),
            Loc::FinalQuery => Some(Message::ReportState(a, State::PageLoaded)),
            Loc::Poll => Some(Message::ReportState(a, self.switch().0)),
            Loc::SwitchAck => Some(Message::AckOperation(a, self.switch().2)),
            Loc::Done => None,
        })
    }

    fn finish(&mut self, o: Outcome) {
        self.loc = Loc::Done;
        self.outcome = Some(o);
    }

    fn begin_transfer(&mut self) {
        self.loc = Loc::RequestAck;
        self.chunk_idx = 0;
    }

    fn after_request_ack(&mut self) {
        self.chunk_idx = 0;
        self.loc = if self.chunks.is_empty() { Loc::Count } else { Loc::Chunk };
    }

    /// Advances on the bus's answer to `expected()`.
    pub fn on_reply(&mut self, r: &BusReply) {
        let a = self.addr;
        let reply = match r {
            BusReply::Err => {
                // any bus error => that error, nothing further
                self.finish(Outcome::Bus);
                return;
            }
            BusReply::Msg(m) => m,
        };
        let own_state = |m: &Option<Message<'static>>| -> Option<State> {
            match m {
                Some(Message::ReportState(ra, s)) if *ra == a => Some(*s),
                _ => None,
            }
        };
        let is_ack = |m: &Option<Message<'static>>, op: Operation| -> bool { matches!(m, Some(Message::AckOperation(ra, ro)) if *ra == a && *ro == op) };
        match self.loc {
            Loc::CinHello => match own_state(reply) {
                Some(s) if READY.contains(&s) => self.finish(Outcome::Ok),
                // otherwise a full configure, starting with its own Hello (†)
                _ => self.loc = Loc::Hello1,
            },
            Loc::Hello1 => match own_state(reply) {
                Some(State::Unconfigured) => self.begin_transfer(),
                Some(State::ReadyToReset) => self.loc = Loc::FinishResetAck,
                // anything else, including silence and foreign addresses: full reset (†)
                _ => self.loc = Loc::StartResetAck,
            },
            Loc::StartResetAck => {
                if is_ack(reply, Operation::StartReset) {
                    self.loc = Loc::HelloAfterStart
                } else {
                    self.finish(Outcome::UnexpectedResponse)
                }
            }
            Loc::HelloAfterStart => {
                if own_state(reply) == Some(State::ReadyToReset) {
                    self.loc = Loc::FinishResetAck
                } else {
                    self.finish(Outcome::UnexpectedResponse)
                }
            }
            Loc::FinishResetAck => {
                if is_ack(reply, Operation::FinishReset) {
                    self.loc = Loc::HelloAfterFinish
                } else {
                    self.finish(Outcome::UnexpectedResponse)
                }
            }
            Loc::HelloAfterFinish => {
                if own_state(reply) == Some(State::Unconfigured) {
                    self.begin_transfer()
                } else {
                    self.finish(Outcome::UnexpectedResponse)
                }
            }
            Loc::RequestAck => {
                if is_ack(reply, self.transfer_op()) {
                    self.after_request_ack()
                } else {
                    self.finish(Outcome::UnexpectedResponse)
                }
            }
            Loc::Chunk => {
                if reply.is_none() {
                    self.chunk_idx += 1;
                    if self.chunk_idx >= self.chunks.len() {
                        self.loc = Loc::Count;
                    }
                } else {
                    self.finish(Outcome::UnexpectedResponse)
                }
            }
            Loc::Count => {
                if reply.is_none() {
                    self.loc = Loc::ResultQuery
                } else {
                    self.finish(Outcome::UnexpectedResponse)
                }
            }
            Loc::ResultQuery => {
                let st = own_state(reply);
                if st == Some(self.failed_state()) && self.attempt < 3 {
                    self.attempt += 1;
                    self.begin_transfer();
                } else if st == Some(self.ok_state()) {
                    match self.call {
                        Call::SendPages => self.loc = Loc::PixelsComplete,
                        _ => self.finish(Outcome::Ok),
                    }
                } else {
                    self.finish(Outcome::UnexpectedResponse)
                }
            }
            Loc::PixelsComplete => {
                if reply.is_none() {
                    self.loc = Loc::FinalQuery
                } else {
                    self.finish(Outcome::UnexpectedResponse)
                }
            }
            Loc::FinalQuery => {
                // own ShowingPages => Automatic; anything else => Manual (†)
                let auto = own_state(reply) == Some(State::ShowingPages);
                self.finish(Outcome::OkStyle(auto));
            }
            Loc::Poll => {
                let (target, trigger, _) = self.switch();
                self.polls += 1;
                match own_state(reply) {
                    Some(State::ShowingPages) => self.finish(Outcome::Ok),
                    Some(s) if s == target => self.finish(Outcome::Ok),
                    Some(s) if s == trigger => self.loc = Loc::SwitchAck,
                    Some(State::PageLoadInProgress) | Some(State::PageShowInProgress) => {}
                    _ => self.finish(Outcome::UnexpectedResponse),
                }
            }
            Loc::SwitchAck => {
                if is_ack(reply, self.switch().2) {
                    self.loc = Loc::Poll
                } else {
                    self.finish(Outcome::UnexpectedResponse)
                }
            }
            Loc::Goodbye => {
                if reply.is_none() {
                    self.finish(Outcome::Ok)
                } else {
                    self.finish(Outcome::UnexpectedResponse)
                }
            }
            Loc::Done => {}
        }
    }
}
