//! Message-level seams: the world holding the real virtual bus (with optional lock-step
//! reference models), the fault-injecting bus, the recording bus.

use std::error::Error;
use std::fmt;
use std::sync::{Arc, Mutex, MutexGuard};

use flipdot_core::{Address, ChunkCount, Message, Offset, Operation, PageFlipStyle, SignBus, State};
use flipdot_testing::{VirtualSign, VirtualSignBus};

use crate::core::{catch, stable_hash, Cx};
use crate::gens::{self, show, show_opt, to_static};
use crate::models::sign::SignModel;

#[derive(Debug)]
pub struct SimBusError(pub &'static str);

impl fmt::Display for SimBusError {
    fn fmt(&self, f: &mut fmt::Formatter<'_>) -> fmt::Result {
        write!(f, "simulated bus error: {}", self.0)
    }
}

impl Error for SimBusError {}

pub type BusResult<'a> = Result<Option<Message<'a>>, Box<dyn Error + Send + Sync>>;

/// A bus failure as a transport could report it: the simulator's own error type, a bare
/// `io::Error` of several kinds, or what `SerialSignBus` produces (a `FrameError` wrapping an
/// `io::Error` -- e.g. a read timeout -- or a decode error). The tape picks; 0 = the plain one.
pub fn bus_error(cx: &Cx, what: &'static str) -> Box<dyn Error + Send + Sync> {
    use std::io;
    let kinds = [io::ErrorKind::TimedOut, io::ErrorKind::BrokenPipe, io::ErrorKind::Other, io::ErrorKind::UnexpectedEof, io::ErrorKind::WouldBlock];
    if cx.chance(1, 10) {
        // an error that comes straight from the operating system (it carries an errno)
        cx.probe("bus_error_with_os_code");
        return Box::new(io::Error::from_raw_os_error(*cx.pick(&[110, 5, 11, 32])));
    }
    match cx.draw(8) {
        0 => Box::new(SimBusError(what)),
        6 => Box::new(flipdot::SignError::UnexpectedResponse { expected: "nothing".into(), actual: what.into() }),
        7 => Box::new(flipdot::SignError::Bus { source: Box::new(io::Error::new(io::ErrorKind::TimedOut, what)) }),
        1 => Box::new(io::Error::new(*cx.pick(&kinds), what)),
        2 | 3 => Box::new(flipdot_core::FrameError::from(io::Error::new(io::ErrorKind::TimedOut, what))),
        4 => Box::new(flipdot_core::FrameError::from(io::Error::new(*cx.pick(&kinds), what))),
        _ => match flipdot_core::Frame::from_bytes(b":00000000FF\r\n") {
            Err(e) => Box::new(e),
            Ok(_) => Box::new(SimBusError(what)),
        },
    }
}

#[derive(Clone, Copy, Debug, PartialEq, Eq)]
pub enum OnPanic {
    /// The panic is a violation of the scenario's property (class `<prop>/panic@site`).
    Fail,
    /// The panic is another property's business: abandon the run without a verdict.
    Discard,
}

/// The real virtual bus plus what the oracles need.
pub struct World {
    pub cx: Cx,
    pub prop: &'static str,
    pub on_panic: OnPanic,
    pub bus: VirtualSignBus<'static>,
    pub addrs: Vec<Address>,
    pub flips: Vec<PageFlipStyle>,
    /// Reference models, one per sign: always stepped (generators use them to aim at deep
    /// states); compared with the real signs after every message only when `check_models`.
    pub models: Vec<SignModel>,
    pub check_models: bool,
    /// Record a hash of the whole bus after every delivery (distinct states reached).
    pub track_states: bool,
    /// Once the real bus has unwound its state is not trusted any more.
    pub dead: bool,
    pub delivered: u64,
    pub delivery_cap: u64,
    /// Set once `delivery_cap` is reached; buses then refuse further traffic so controllers stop.
    pub capped: bool,
    /// Is hitting the cap a violation of the scenario's property (an operation that must
    /// succeed does not end) or just the end of the run (a traffic source that does not stop)?
    pub cap_is_violation: bool,
    /// True number of data chunks the (first) sign has counted, for count-aware generators.
    pub log_messages: bool,
}

impl fmt::Debug for World {
    fn fmt(&self, f: &mut fmt::Formatter<'_>) -> fmt::Result {
        write!(f, "World({} signs)", self.addrs.len())
    }
}

#[derive(Clone, Debug)]
pub struct SharedWorld(pub Arc<Mutex<World>>);

impl SharedWorld {
    pub fn lock(&self) -> MutexGuard<'_, World> {
        match self.0.lock() {
            Ok(g) => g,
            Err(p) => p.into_inner(),
        }
    }
}

impl World {
    pub fn new(cx: &Cx, prop: &'static str, on_panic: OnPanic, signs: &[(Address, PageFlipStyle)], with_models: bool) -> SharedWorld {
        let bus = VirtualSignBus::new(signs.iter().map(|(a, f)| VirtualSign::new(*a, *f)));
        let models = signs.iter().map(|(a, f)| SignModel::new(*a, *f)).collect();
        cx.event("world", &signs.iter().map(|(a, f)| (a.0, *f == PageFlipStyle::Automatic)).collect::<Vec<_>>());
        SharedWorld(Arc::new(Mutex::new(World {
            cx: cx.clone(),
            prop,
            on_panic,
            bus,
            addrs: signs.iter().map(|s| s.0).collect(),
            flips: signs.iter().map(|s| s.1).collect(),
            models,
            check_models: with_models,
            track_states: true,
            dead: false,
            delivered: 0,
            delivery_cap: 60_000,
            capped: false,
            cap_is_violation: false,
            log_messages: true,
        })))
    }

    pub fn n(&self) -> usize {
        self.addrs.len()
    }

    pub fn sign(&self, i: usize) -> &VirtualSign<'static> {
        self.bus.sign(i)
    }

    /// Delivers one message to the real bus (and to the models), checking the lock-step oracle.
    pub fn deliver(&mut self, m: &Message<'_>) -> Option<Message<'static>> {
        if self.dead {
            return None;
        }
        self.delivered += 1;
        // Bounded liveness: no scenario needs anywhere near this many deliveries in one run; a
        // controller that polls a sign for ever ends here instead of hanging the batch.
        if self.delivered >= self.delivery_cap {
            if !self.capped {
                self.capped = true;
                if self.cap_is_violation {
                    self.cx.fail(
                        format!("{}/liveness-message-cap", self.prop),
                        format!("{} messages delivered in one run without the operation finishing (last: {})", self.delivered, show(m)),
                    );
                } else {
                    // the traffic source (a controller) does not stop: not this property's business
                    self.cx.probe("run_cut_at_message_cap");
                }
            }
            return None;
        }
        let bus = &mut self.bus;
        let res = catch(|| bus.process_message(m.clone()));
        let reply: Option<Message<'static>> = match res {
            Ok(Ok(r)) => r.map(|r| to_static(&r)),
            Ok(Err(e)) => {
                self.cx.fail(format!("{}/virtual-bus-error", self.prop), format!("VirtualSignBus returned an error for {}: {e}", show(m)));
                None
            }
            Err(p) => {
                self.dead = true;
                self.cx.note(|| format!("deliver {} => PANIC at {}: {}", show(m), p.short_location(), p.message));
                match self.on_panic {
                    OnPanic::Fail => self.cx.fail(
                        format!("{}/panic@{}", self.prop, p.short_location()),
                        format!("delivering {} unwound: {}", show(m), p.message),
                    ),
                    OnPanic::Discard => self.cx.discard("virtual-sign-panicked"),
                }
                return None;
            }
        };
        if self.log_messages {
            self.cx.hash_event("deliver", &(stable_hash(m), stable_hash(&reply)));
            self.cx.note(|| format!("    {} => {}", show(m), show_opt(&reply)));
        }
        self.step_models(m, &reply);
        if self.track_states {
            self.cx.distinct(stable_hash(&self.bus));
        }
        reply
    }

    fn step_models(&mut self, m: &Message<'_>, reply: &Option<Message<'static>>) {
        let check = self.check_models;
        let models = &mut self.models;
        let mut model_reply: Option<Message<'static>> = None;
        for md in models.iter_mut() {
            if check {
                if let Message::RequestOperation(a, op) = m {
                    if *a == md.address {
                        self.cx.probe(&format!("request:{:?}@{:?}:{}", op, md.state, if md.op_legal(*op) { "legal" } else { "illegal" }));
                    }
                }
                self.cx.distinct2(stable_hash(&(gens::state_index(md.state), msg_class(m, md.address))));
            }
            let r = md.step(m);
            if model_reply.is_none() {
                model_reply = r;
            }
        }
        if !check {
            return;
        }
        if *reply != model_reply {
            self.cx.fail(
                "C13/reply-mismatch",
                format!("after {}: sign replied {}, state machine prescribes {}", show(m), show_opt(reply), show_opt(&model_reply)),
            );
            return;
        }
        for (i, md) in models.iter().enumerate() {
            let s = self.bus.sign(i);
            if s.address() != md.address {
                self.cx.fail("C13/address-changed", format!("after {}: the sign at position {i} reports address {:#06x}, it was created as {:#06x}", show(m), s.address().0, md.address.0));
                return;
            }
            if s.state() != md.state {
                self.cx.fail(
                    "C13/state-mismatch",
                    format!("after {}: sign {:#06x} is in {:?}, state machine prescribes {:?}", show(m), md.address.0, s.state(), md.state),
                );
                return;
            }
            if s.sign_type() != md.sign_type {
                self.cx.fail(
                    "C13/type-mismatch",
                    format!("after {}: sign {:#06x} has type {:?}, state machine prescribes {:?}", show(m), md.address.0, s.sign_type(), md.sign_type),
                );
                return;
            }
            let pages = s.pages();
            let same = pages.len() == md.pages.len()
                && pages.iter().zip(md.pages.iter()).all(|(p, q)| p.width() == q.w && p.height() == q.h && p.as_bytes() == &q.bytes[..]);
            if !same {
                self.cx.fail(
                    "C13/pages-mismatch",
                    format!(
                        "after {}: sign {:#06x} stores {} page(s) {:?}, state machine prescribes {} page(s) {:?}",
                        show(m),
                        md.address.0,
                        pages.len(),
                        pages.iter().map(|p| (p.width(), p.height(), p.as_bytes().len())).collect::<Vec<_>>(),
                        md.pages.len(),
                        md.pages.iter().map(|p| (p.w, p.h, p.bytes.len())).collect::<Vec<_>>()
                    ),
                );
                return;
            }
            // Direct invariant: every stored page is a complete page of the configured size.
            for p in pages {
                if md.w == 0 || md.h == 0 || p.width() != md.w || p.height() != md.h || p.as_bytes().len() != gens::padded_page_len(md.w, md.h) {
                    self.cx.fail(
                        "C13/incomplete-page-stored",
                        format!("sign {:#06x} stores a {}x{} page of {} bytes while configured as {}x{}", md.address.0, p.width(), p.height(), p.as_bytes().len(), md.w, md.h),
                    );
                    return;
                }
            }
        }
    }
}

/// Coarse class of a message relative to one sign, for transition coverage.
pub fn msg_class(m: &Message<'_>, own: Address) -> u32 {
    let mine = |a: &Address| if *a == own { 0 } else { 100 };
    match m {
        Message::SendData(o, d) => 1 + if o.0 == 0 { 0 } else { 1 } + if d.get().len() == 16 { 0 } else { 2 },
        Message::DataChunksSent(_) => 5,
        Message::Hello(a) => 6 + mine(a),
        Message::QueryState(a) => 7 + mine(a),
        Message::ReportState(..) => 8,
        Message::RequestOperation(a, op) => 10 + gens::op_index(*op) as u32 + mine(a),
        Message::AckOperation(..) => 20,
        Message::PixelsComplete(a) => 21 + mine(a),
        Message::Goodbye(a) => 22 + mine(a),
        _ => 30,
    }
}

/// A plain `SignBus` over the shared world (no faults).
#[derive(Debug)]
pub struct DirectBus(pub SharedWorld);

impl SignBus for DirectBus {
    fn process_message<'a>(&mut self, message: Message<'_>) -> BusResult<'a> {
        let mut w = self.0.lock();
        if w.cx.failed() || w.capped {
            // a violation has been recorded: stop whatever controller is still talking
            return Err(Box::new(SimBusError("run is over")));
        }
        Ok(w.deliver(&message))
    }
}

// ---------------------------------------------------------------------------------------------
// Fault injection
// ---------------------------------------------------------------------------------------------

pub const MSG_FAULTS: [&str; 12] = [
    "lose_request",
    "lose_reply",
    "duplicate",
    "reorder",
    "short_chunk",
    "long_chunk",
    "bad_offset",
    "bad_count",
    "bad_config",
    "foreign_reply",
    "bus_error",
    "foreign_traffic",
];

/// Per-run (swarm) fault rates: for each kind a denominator, 0 = disabled.
#[derive(Clone, Debug, Default)]
pub struct FaultCfg {
    pub den: [u64; 12],
}

impl FaultCfg {
    pub fn none() -> Self {
        FaultCfg::default()
    }

    /// Draws which kinds are enabled and their rates; a quarter of the configurations are fault-free.
    pub fn swarm(cx: &Cx, allowed: &[&str]) -> Self {
        let mut cfg = FaultCfg::default();
        if cx.draw(4) == 0 {
            return cfg;
        }
        for (i, k) in MSG_FAULTS.iter().enumerate() {
            if !allowed.contains(k) {
                continue;
            }
            cfg.den[i] = *cx.pick(&[0u64, 0, 64, 16, 4]);
        }
        cfg
    }

    fn fire(&self, cx: &Cx, kind: &'static str) -> bool {
        let i = MSG_FAULTS.iter().position(|k| *k == kind).unwrap();
        let den = self.den[i];
        if den == 0 {
            return false;
        }
        if cx.chance(1, den) {
            cx.fault(kind);
            true
        } else {
            false
        }
    }

    pub fn any(&self) -> bool {
        self.den.iter().any(|d| *d != 0)
    }
}

/// Fault-injecting bus between a controller and the world.
#[derive(Debug)]
pub struct FaultyBus {
    pub world: SharedWorld,
    pub cx: Cx,
    pub cfg: FaultCfg,
    /// A no-reply message held back by `reorder`.
    pub held: Option<Message<'static>>,
    /// `crash`: the controller's current call is cut at this message index (bus error from then on).
    pub crash_at: Option<u64>,
    pub msg_index: u64,
    pub crashed: bool,
}

impl FaultyBus {
    pub fn new(world: SharedWorld, cx: &Cx, cfg: FaultCfg) -> Self {
        FaultyBus { world, cx: cx.clone(), cfg, held: None, crash_at: None, msg_index: 0, crashed: false }
    }

    /// Starts a new controller call; optionally arms a crash inside it.
    pub fn begin_call(&mut self, crash_at: Option<u64>) {
        self.msg_index = 0;
        self.crash_at = crash_at;
        self.crashed = false;
    }

    /// Delivers anything still held back (faults have stopped).
    pub fn flush_held(&mut self) {
        if let Some(h) = self.held.take() {
            let _ = self.world.lock().deliver(&h);
        }
    }

    fn mutate<'m>(&mut self, m: Message<'m>) -> Message<'m> {
        match m {
            Message::SendData(off, d) => {
                let mut off = off;
                let mut bytes: Option<Vec<u8>> = None;
                let len = d.get().len();
                if len == 16 && off.0 == 0 && matches!(d.get()[0], 4 | 8) && self.cfg.fire(&self.cx, "bad_config") {
                    let mut b = d.get().to_vec();
                    let n = 1 + self.cx.draw(4) as usize;
                    for _ in 0..n {
                        let i = self.cx.draw(16) as usize;
                        b[i] = self.cx.draw(256) as u8;
                    }
                    if self.cx.chance(1, 2) {
                        b[0] = d.get()[0];
                    }
                    bytes = Some(b);
                }
                if len > 0 && self.cfg.fire(&self.cx, "short_chunk") {
                    let mut b = bytes.take().unwrap_or_else(|| d.get().to_vec());
                    let keep = self.cx.draw(b.len() as u64) as usize;
                    b.truncate(keep);
                    bytes = Some(b);
                } else if self.cfg.fire(&self.cx, "long_chunk") {
                    let mut b = bytes.take().unwrap_or_else(|| d.get().to_vec());
                    let extra = 1 + self.cx.draw((255 - b.len().min(254)) as u64) as usize;
                    let extra = extra.min(255 - b.len());
                    b.extend(self.cx.bytes(extra));
                    bytes = Some(b);
                }
                if self.cfg.fire(&self.cx, "bad_offset") {
                    off = if off.0 == 0 { Offset(16 * (1 + self.cx.draw(8) as u16)) } else if self.cx.chance(1, 2) { Offset(0) } else { Offset(self.cx.draw(0x1_0000) as u16) };
                }
                match bytes {
                    Some(b) => Message::SendData(off, gens::data(b)),
                    None => Message::SendData(off, d),
                }
            }
            Message::DataChunksSent(ChunkCount(n)) => {
                if self.cfg.fire(&self.cx, "bad_count") {
                    let k = 1 + self.cx.draw(3) as u16;
                    let n2 = if self.cx.chance(1, 2) { n.wrapping_add(k) } else { n.wrapping_sub(k) };
                    Message::DataChunksSent(ChunkCount(n2))
                } else {
                    Message::DataChunksSent(ChunkCount(n))
                }
            }
            other => other,
        }
    }
}

fn expects_no_reply(m: &Message<'_>) -> bool {
    matches!(m, Message::SendData(..) | Message::DataChunksSent(..) | Message::PixelsComplete(..) | Message::Goodbye(..))
}

impl SignBus for FaultyBus {
    fn process_message<'a>(&mut self, message: Message<'_>) -> BusResult<'a> {
        let idx = self.msg_index;
        self.msg_index += 1;
        if self.cx.failed() || self.world.lock().capped {
            return Err(Box::new(SimBusError("run is over")));
        }
        if self.crashed {
            self.cx.probe("message_after_crash");
            return Err(Box::new(SimBusError("controller crashed")));
        }
        if self.crash_at == Some(idx) {
            self.crashed = true;
            self.cx.fault("crash");
            match &message {
                Message::SendData(..) => self.cx.probe("crash_between_chunks"),
                Message::RequestOperation(_, Operation::FinishReset) | Message::Hello(_) if idx > 0 => self.cx.probe("crash_mid_reset"),
                _ => {}
            }
            return Err(bus_error(&self.cx, "controller crashed"));
        }
        if !self.cfg.any() {
            return Ok(self.world.lock().deliver(&message));
        }
        if self.cfg.fire(&self.cx, "foreign_traffic") {
            let k = 1 + self.cx.draw(3);
            for _ in 0..k {
                let addrs = self.world.lock().addrs.clone();
                let fm = gens::raw_message(&self.cx, &addrs);
                self.cx.note(|| "  (foreign master)".to_string());
                let _ = self.world.lock().deliver(&fm);
            }
        }
        let message = self.mutate(message);
        if self.cfg.fire(&self.cx, "bus_error") {
            return Err(bus_error(&self.cx, "transport failure"));
        }
        if self.cfg.fire(&self.cx, "lose_request") {
            if matches!(message, Message::SendData(..)) {
                self.cx.probe("lost_chunk");
            }
            return Ok(None);
        }
        if expects_no_reply(&message) && self.held.is_none() && self.cfg.fire(&self.cx, "reorder") {
            self.held = Some(to_static(&message));
            return Ok(None);
        }
        let mut reply = self.world.lock().deliver(&message);
        if self.cfg.fire(&self.cx, "duplicate") {
            let _ = self.world.lock().deliver(&message);
        }
        if let Some(h) = self.held.take() {
            let _ = self.world.lock().deliver(&h);
        }
        if reply.is_some() && self.cfg.fire(&self.cx, "lose_reply") {
            reply = None;
        }
        if self.cfg.fire(&self.cx, "foreign_reply") {
            let addrs = self.world.lock().addrs.clone();
            reply = Some(match self.cx.draw(3) {
                0 => Message::ReportState(gens::other_address(&self.cx, &addrs), gens::ALL_STATES[self.cx.draw(13) as usize]),
                1 => Message::AckOperation(gens::other_address(&self.cx, &addrs), gens::ALL_OPS[self.cx.draw(6) as usize]),
                _ => Message::ReportState(*self.cx.pick(&addrs), State::Unconfigured),
            });
        }
        Ok(reply)
    }
}

// ---------------------------------------------------------------------------------------------
// Recording
// ---------------------------------------------------------------------------------------------

#[derive(Clone, Debug)]
pub enum Reply {
    Msg(Option<Message<'static>>),
    Err,
}

#[derive(Clone, Debug)]
pub struct Exchange {
    pub sent: Message<'static>,
    pub reply: Reply,
}

pub type History = Arc<Mutex<Vec<Exchange>>>;

/// Records every exchange that passes through it.
pub struct RecordingBus<B: SignBus> {
    pub inner: B,
    pub history: History,
}

impl<B: SignBus> fmt::Debug for RecordingBus<B> {
    fn fmt(&self, f: &mut fmt::Formatter<'_>) -> fmt::Result {
        write!(f, "RecordingBus")
    }
}

impl<B: SignBus> RecordingBus<B> {
    pub fn new(inner: B) -> (Self, History) {
        let h: History = Arc::new(Mutex::new(Vec::new()));
        (RecordingBus { inner, history: h.clone() }, h)
    }
}

impl<B: SignBus> SignBus for RecordingBus<B> {
    fn process_message<'a>(&mut self, message: Message<'_>) -> BusResult<'a> {
        let sent = to_static(&message);
        let r = self.inner.process_message(message);
        let reply = match &r {
            Ok(m) => Reply::Msg(m.as_ref().map(to_static)),
            Err(_) => Reply::Err,
        };
        self.history.lock().unwrap().push(Exchange { sent, reply });
        r
    }
}

pub fn take_history(h: &History) -> Vec<Exchange> {
    std::mem::take(&mut *h.lock().unwrap())
}
