//! Minimal JSON value, writer and parser (no external crates are needed offline).

use std::fmt::Write;

#[derive(Clone, Debug, PartialEq)]
pub enum J {
    Null,
    Bool(bool),
    Int(i128),
    Num(f64),
    Str(String),
    Arr(Vec<J>),
    Obj(Vec<(String, J)>),
}

impl J {
    pub fn obj() -> J {
        J::Obj(Vec::new())
    }
    pub fn s(v: impl Into<String>) -> J {
        J::Str(v.into())
    }
    pub fn i(v: impl Into<i128>) -> J {
        J::Int(v.into())
    }
    pub fn u(v: u64) -> J {
        J::Int(i128::from(v))
    }
    pub fn set(&mut self, k: &str, v: J) -> &mut J {
        if let J::Obj(items) = self {
            if let Some(slot) = items.iter_mut().find(|(kk, _)| kk == k) {
                slot.1 = v;
            } else {
                items.push((k.to_string(), v));
            }
        }
        self
    }
    pub fn with(mut self, k: &str, v: J) -> J {
        self.set(k, v);
        self
    }
    pub fn get(&self, k: &str) -> Option<&J> {
        match self {
            J::Obj(items) => items.iter().find(|(kk, _)| kk == k).map(|(_, v)| v),
            _ => None,
        }
    }
    pub fn as_str(&self) -> Option<&str> {
        match self {
            J::Str(s) => Some(s),
            _ => None,
        }
    }
    pub fn as_u64(&self) -> Option<u64> {
        match self {
            J::Int(i) if *i >= 0 && *i <= i128::from(u64::MAX) => Some(*i as u64),
            _ => None,
        }
    }
    pub fn as_arr(&self) -> Option<&[J]> {
        match self {
            J::Arr(a) => Some(a),
            _ => None,
        }
    }

    pub fn to_string_pretty(&self) -> String {
        let mut out = String::new();
        self.write(&mut out, 0, true);
        out.push('\n');
        out
    }

    fn write(&self, out: &mut String, indent: usize, pretty: bool) {
        match self {
            J::Null => out.push_str("null"),
            J::Bool(b) => out.push_str(if *b { "true" } else { "false" }),
            J::Int(i) => {
                let _ = write!(out, "{}", i);
            }
            J::Num(n) => {
                if n.is_finite() {
                    let _ = write!(out, "{:.3}", n);
                } else {
                    out.push_str("null");
                }
            }
            J::Str(s) => write_str(out, s),
            J::Arr(a) => {
                // Arrays of scalars go on one line.
                let scalar = a.iter().all(|v| match v {
                    J::Arr(_) | J::Obj(_) => false,
                    J::Str(s) => s.len() <= 24,
                    _ => true,
                });
                if a.is_empty() {
                    out.push_str("[]");
                } else if scalar || !pretty {
                    out.push('[');
                    for (i, v) in a.iter().enumerate() {
                        if i > 0 {
                            out.push_str(", ");
                        }
                        v.write(out, indent, false);
                    }
                    out.push(']');
                } else {
                    out.push_str("[\n");
                    for (i, v) in a.iter().enumerate() {
                        pad(out, indent + 1);
                        v.write(out, indent + 1, true);
                        if i + 1 < a.len() {
                            out.push(',');
                        }
                        out.push('\n');
                    }
                    pad(out, indent);
                    out.push(']');
                }
            }
            J::Obj(items) => {
                if items.is_empty() {
                    out.push_str("{}");
                } else if !pretty {
                    out.push('{');
                    for (i, (k, v)) in items.iter().enumerate() {
                        if i > 0 {
                            out.push_str(", ");
                        }
                        write_str(out, k);
                        out.push_str(": ");
                        v.write(out, indent, false);
                    }
                    out.push('}');
                } else {
                    out.push_str("{\n");
                    for (i, (k, v)) in items.iter().enumerate() {
                        pad(out, indent + 1);
                        write_str(out, k);
                        out.push_str(": ");
                        v.write(out, indent + 1, true);
                        if i + 1 < items.len() {
                            out.push(',');
                        }
                        out.push('\n');
                    }
                    pad(out, indent);
                    out.push('}');
                }
            }
        }
    }
}

fn pad(out: &mut String, n: usize) {
    for _ in 0..n {
        out.push(' ');
    }
}

fn write_str(out: &mut String, s: &str) {
    out.push('"');
    for c in s.chars() {
        match c {
            '"' => out.push_str("\\\""),
            '\\' => out.push_str("\\\\"),
            '\n' => out.push_str("\\n"),
            '\r' => out.push_str("\\r"),
            '\t' => out.push_str("\\t"),
            c if (c as u32) < 0x20 => {
                let _ = write!(out, "\\u{:04x}", c as u32);
            }
            c => out.push(c),
        }
    }
    out.push('"');
}

pub fn parse(text: &str) -> Result<J, String> {
    let mut p = Parser { b: text.as_bytes(), i: 0 };
    p.ws();
    let v = p.value()?;
    p.ws();
    if p.i != p.b.len() {
        return Err(format!("trailing characters at {}", p.i));
    }
    Ok(v)
}

struct Parser<'a> {
    b: &'a [u8],
    i: usize,
}

impl Parser<'_> {
    fn ws(&mut self) {
        while self.i < self.b.len() && matches!(self.b[self.i], b' ' | b'\n' | b'\r' | b'\t') {
            self.i += 1;
        }
    }
    fn eat(&mut self, c: u8) -> Result<(), String> {
        if self.i < self.b.len() && self.b[self.i] == c {
            self.i += 1;
            Ok(())
        } else {
            Err(format!("expected '{}' at {}", c as char, self.i))
        }
    }
    fn lit(&mut self, s: &str, v: J) -> Result<J, String> {
        if self.b[self.i..].starts_with(s.as_bytes()) {
            self.i += s.len();
            Ok(v)
        } else {
            Err(format!("bad literal at {}", self.i))
        }
    }
    fn value(&mut self) -> Result<J, String> {
        self.ws();
        if self.i >= self.b.len() {
            return Err("unexpected end".into());
        }
        match self.b[self.i] {
            b'n' => self.lit("null", J::Null),
            b't' => self.lit("true", J::Bool(true)),
            b'f' => self.lit("false", J::Bool(false)),
            b'"' => Ok(J::Str(self.string()?)),
            b'[' => {
                self.i += 1;
                let mut a = Vec::new();
                self.ws();
                if self.i < self.b.len() && self.b[self.i] == b']' {
                    self.i += 1;
                    return Ok(J::Arr(a));
                }
                loop {
                    a.push(self.value()?);
                    self.ws();
                    if self.i < self.b.len() && self.b[self.i] == b',' {
                        self.i += 1;
                        continue;
                    }
                    self.eat(b']')?;
                    return Ok(J::Arr(a));
                }
            }
            b'{' => {
                self.i += 1;
                let mut o = Vec::new();
                self.ws();
                if self.i < self.b.len() && self.b[self.i] == b'}' {
                    self.i += 1;
                    return Ok(J::Obj(o));
                }
                loop {
                    self.ws();
                    let k = self.string()?;
                    self.ws();
                    self.eat(b':')?;
                    let v = self.value()?;
                    o.push((k, v));
                    self.ws();
                    if self.i < self.b.len() && self.b[self.i] == b',' {
                        self.i += 1;
                        continue;
                    }
                    self.eat(b'}')?;
                    return Ok(J::Obj(o));
                }
            }
            _ => self.number(),
        }
    }
    fn number(&mut self) -> Result<J, String> {
        let start = self.i;
        while self.i < self.b.len() && matches!(self.b[self.i], b'-' | b'+' | b'.' | b'e' | b'E' | b'0'..=b'9') {
            self.i += 1;
        }
        let s = std::str::from_utf8(&self.b[start..self.i]).map_err(|e| e.to_string())?;
        if let Ok(i) = s.parse::<i128>() {
            Ok(J::Int(i))
        } else {
            s.parse::<f64>().map(J::Num).map_err(|e| format!("bad number {s:?}: {e}"))
        }
    }
    fn string(&mut self) -> Result<String, String> {
        self.eat(b'"')?;
        let mut out = Vec::new();
        while self.i < self.b.len() {
            let c = self.b[self.i];
            self.i += 1;
            match c {
                b'"' => return String::from_utf8(out).map_err(|e| e.to_string()),
                b'\\' => {
                    let e = *self.b.get(self.i).ok_or("bad escape")?;
                    self.i += 1;
                    match e {
                        b'n' => out.push(b'\n'),
                        b'r' => out.push(b'\r'),
                        b't' => out.push(b'\t'),
                        b'b' => out.push(8),
                        b'f' => out.push(12),
                        b'u' => {
                            let h = std::str::from_utf8(&self.b[self.i..self.i + 4]).map_err(|e| e.to_string())?;
                            let cp = u32::from_str_radix(h, 16).map_err(|e| e.to_string())?;
                            self.i += 4;
                            let ch = char::from_u32(cp).unwrap_or('?');
                            let mut buf = [0u8; 4];
                            out.extend_from_slice(ch.encode_utf8(&mut buf).as_bytes());
                        }
                        other => out.push(other),
                    }
                }
                c => out.push(c),
            }
        }
        Err("unterminated string".into())
    }
}
