//! The choice tape: the single source of every decision a run makes.
//!
//! Generate mode: values come from xoshiro256** seeded from (VERIF_SEED, scenario, run index).
//! Replay mode: values come from a recorded tape (`value % bound`, 0 once exhausted).
//! Every generator is written so that 0 is the simplest choice (no fault, smallest size,
//! "same task continues"), which is what makes generic tape shrinking meaningful.

pub fn splitmix64(x: &mut u64) -> u64 {
    *x = x.wrapping_add(0x9E37_79B9_7F4A_7C15);
    let mut z = *x;
    z = (z ^ (z >> 30)).wrapping_mul(0xBF58_476D_1CE4_E5B9);
    z = (z ^ (z >> 27)).wrapping_mul(0x94D0_49BB_1331_11EB);
    z ^ (z >> 31)
}

pub fn fnv1a(bytes: &[u8]) -> u64 {
    let mut h: u64 = 0xcbf2_9ce4_8422_2325;
    for b in bytes {
        h ^= u64::from(*b);
        h = h.wrapping_mul(0x0000_0100_0000_01B3);
    }
    h
}

#[derive(Clone, Debug)]
pub struct Xoshiro {
    s: [u64; 4],
}

impl Xoshiro {
    pub fn new(seed: u64) -> Self {
        let mut x = seed;
        let s = [splitmix64(&mut x), splitmix64(&mut x), splitmix64(&mut x), splitmix64(&mut x)];
        Xoshiro { s }
    }

    pub fn next(&mut self) -> u64 {
        let result = self.s[1].wrapping_mul(5).rotate_left(7).wrapping_mul(9);
        let t = self.s[1] << 17;
        self.s[2] ^= self.s[0];
        self.s[3] ^= self.s[1];
        self.s[1] ^= self.s[2];
        self.s[0] ^= self.s[3];
        self.s[2] ^= t;
        self.s[3] = self.s[3].rotate_left(45);
        result
    }
}

/// Seed of one run: a pure function of (batch seed, scenario name, run index).
pub fn run_seed(batch_seed: u64, scenario: &str, index: u64) -> u64 {
    let mut x = batch_seed ^ fnv1a(scenario.as_bytes()).rotate_left(17);
    let a = splitmix64(&mut x);
    let mut y = a ^ index.wrapping_mul(0xD6E8_FEB8_6659_FD93);
    splitmix64(&mut y)
}

#[derive(Debug)]
enum Source {
    Rng(Xoshiro),
    Replay { vals: Vec<u64>, pos: usize },
}

#[derive(Debug)]
pub struct Tape {
    src: Source,
    /// Every value handed out (after reduction by its bound), in order.
    pub rec: Vec<u64>,
    /// Hard cap on draws per run so a runaway scenario ends (draws past it return 0).
    pub cap: usize,
}

impl Tape {
    pub fn from_seed(seed: u64) -> Self {
        Tape { src: Source::Rng(Xoshiro::new(seed)), rec: Vec::new(), cap: 4_000_000 }
    }

    pub fn from_values(vals: Vec<u64>) -> Self {
        Tape { src: Source::Replay { vals, pos: 0 }, rec: Vec::new(), cap: 4_000_000 }
    }

    /// A value in `[0, bound)`; `bound == 0` is treated as 1.
    pub fn draw(&mut self, bound: u64) -> u64 {
        let bound = bound.max(1);
        if self.rec.len() >= self.cap {
            return 0;
        }
        let v = match &mut self.src {
            Source::Rng(r) => {
                // Multiply-shift reduction (bias is irrelevant here).
                ((u128::from(r.next()) * u128::from(bound)) >> 64) as u64
            }
            Source::Replay { vals, pos } => {
                let v = vals.get(*pos).copied().unwrap_or(0) % bound;
                *pos += 1;
                v
            }
        };
        self.rec.push(v);
        v
    }
}
