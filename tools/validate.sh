#!/usr/bin/env bash
# Validation on the unchanged tree: thorough tier of every claimed check, then a multi-seed quick sweep.
# Prints only violations / harness errors and timing lines. Evidence goes to a scratch directory.
cd /verif || exit 2
./check build || exit 2
for p in C02 C08 C09 C10 C11 C12 C13 C14 C15 C16 C17 C18 C20; do
  t0=$(date +%s); VERIF_OUT_DIR=/var/tmp/validate-out ./check $p thorough 2>&1 | grep -E "VIOLATION|HARNESS|violation in|violations="; echo "$p thorough took $(( $(date +%s) - t0 ))s"
done
for s in 21 22 23 24 25 26 27 28 29 30; do
  for p in C02 C08 C09 C10 C11 C12 C13 C14 C15 C16 C17 C18 C20; do
    VERIF_SEED=$s VERIF_OUT_DIR=/var/tmp/validate-out ./check $p quick 2>&1 | grep -E "VIOLATION|HARNESS|violation in"
  done
  echo "seed $s done"
done
rm -rf /var/tmp/validate-out
