#!/usr/bin/env bash
cd /verif || exit 2
./check build || exit 2
for s in 1 2 3 4 5 6 7 8 9 10 11 12 13 14 15 16 17 18 19 20; do
  for p in C02 C08 C09 C10 C11 C12 C13 C14 C15 C16 C17 C18 C20; do
    VERIF_SEED=$s VERIF_OUT_DIR=/var/tmp/validate-out ./check $p quick 2>&1 | grep -E "VIOLATION|HARNESS|violation in" 
  done
  echo "seed $s done"
done
for p in C02 C08 C09 C10 C11 C12 C13 C14 C15 C16 C17 C18 C20; do
  t0=$(date +%s); VERIF_OUT_DIR=/var/tmp/validate-out ./check $p thorough 2>&1 | grep -E "VIOLATION|HARNESS|violation in|violations="; echo "$p thorough took $(( $(date +%s) - t0 ))s"
done
rm -rf /var/tmp/validate-out
