#!/usr/bin/env bash
# Source-line reach of the simulation inside alusch/flipdot (supplementary evidence, not a check).
#   tools/coverage.sh [runs-per-scenario]
# Builds the simulator with the nightly toolchain and -C instrument-coverage (the llvm-tools that
# read the profile format ship with nightly only), runs every claimed check once on ONE worker
# (coverage counters are shared memory: 16 workers contend on them and run ~50x slower), merges the
# profiles and writes /verif/reach/coverage.txt: per-file line coverage of /repo's library sources
# and every line of them that no run executed. Scratch output lives under /var/tmp and is removed.
set -eu
V="$(cd "$(dirname "${BASH_SOURCE[0]}")/.." && pwd)"
RUNS="${1:-20000}"
S=/var/tmp/fd-cov-$$
T=$S/target
mkdir -p "$S/prof" "$V/reach"
trap 'rm -rf "$S"' EXIT
BIN_DIR="$(dirname "$(rustc +nightly --print target-libdir)")/bin"
export CARGO_NET_OFFLINE=true
# (build scripts and proc macros are instrumented too and write a profile when they run: keep those out of /repo)
LLVM_PROFILE_FILE="$S/build-%p.profraw" CARGO_TARGET_DIR=$T RUSTFLAGS="--cfg flipdot_verif --check-cfg cfg(flipdot_verif) -C instrument-coverage" \
  cargo +nightly build --release --offline --manifest-path "$V/sim/Cargo.toml" >/dev/null 2>&1
for p in C02 C08 C09 C10 C11 C12 C13 C14 C15 C16 C17 C18 C20; do
  r=$RUNS; [ "$p" = C02 ] && r=$((RUNS / 500 + 4))
  LLVM_PROFILE_FILE="$S/prof/$p-%p.profraw" VERIF_DIR="$V" VERIF_OUT_DIR="$S/out" VERIF_WORKERS=1 VERIF_RUNS=$r \
    "$T/release/flipdot-sim" check $p quick 2>&1 | tail -1
done
"$BIN_DIR/llvm-profdata" merge -sparse "$S"/prof/*.profraw -o "$S/all.profdata"
IGN='(/\.cargo/|/rustc/|/verif/|/library/)'
{
  echo "# Lines of /repo reached by one pass of every claimed check (quick tier, $RUNS runs per scenario, one worker)"
  echo "# repo HEAD $(git -C /repo rev-parse --short HEAD), verif HEAD $(git -C "$V" rev-parse --short HEAD), $(date -u +%F)"
  echo
  "$BIN_DIR/llvm-cov" report "$T/release/flipdot-sim" -instr-profile="$S/all.profdata" -ignore-filename-regex="$IGN" 2>/dev/null \
    | sed -E 's/ +/ /g; /^-+$/d'
  echo
  echo "# Lines never executed (file:line: text). Lines inside #[cfg(test)] modules and doc examples are not compiled in."
  "$BIN_DIR/llvm-cov" show "$T/release/flipdot-sim" -instr-profile="$S/all.profdata" -ignore-filename-regex="$IGN" \
      -show-line-counts-or-regions=false -use-color=false 2>/dev/null \
    | awk '/^\/repo.*:$/ {f=$0; sub(/:$/,"",f); next} /^ *[0-9]+\| *0\|/ {split($0,a,"|"); gsub(/ /,"",a[1]); line=$0; sub(/^ *[0-9]+\| *0\|/,"",line); print f ":" a[1] ": " line}'
} > "$V/reach/coverage.txt"
echo "wrote $V/reach/coverage.txt"
