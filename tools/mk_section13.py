#!/usr/bin/env python3
"""Regenerates section 13 of DESIGN.md from mutants/RESULTS.md and seeded/*/meta.json."""
import json, glob, os, re
V = os.path.dirname(os.path.dirname(os.path.abspath(__file__)))
ALL = ["C02","C08","C09","C10","C11","C12","C13","C14","C15","C16","C17","C18","C20"]

def mutants():
    rows = []
    for l in open(os.path.join(V, "mutants/RESULTS.md")):
        if not l.startswith("| ") or l.startswith("| patch") or l.startswith("|---"):
            continue
        c = [x.strip() for x in l.strip().strip("|").split("|")]
        if len(c) >= 5:
            rows.append(c)
    return rows

def seeded():
    out = []
    for f in sorted(glob.glob(os.path.join(V, "seeded/*/meta.json"))):
        out.append(json.load(open(f)))
    return out

def main():
    m = mutants()
    s = seeded()
    lines = []
    lines.append("## 13. Which checks catch which changes\n")
    lines.append("Two independent sources of broken trees, both applied to scratch worktrees of `/repo` (never committed there):\n")
    lines.append("* `/verif/mutants/` — %d small patches written by me, one per \"planned break\" of section 5 plus behaviour-preserving `ok-*` edits; `mutants/run.py` applies each, runs the repository's own suite, then every claimed quick check. Full table: `mutants/RESULTS.md`.\n" % len(m))
    lines.append("* `/verif/seeded/<ID>-<a..z, 2a, 2c, 2e>/` — %d changes written in sixteen rounds by fresh sub-agents that were given only the text of one property and a scratch worktree (from round 2 on also a list of what earlier rounds had tried). Each directory holds `patch.diff`, the sub-agent's demonstration (`demo.rs`, `demo_path.txt`), its `notes.md` (what it needs in order to manifest) and `meta.json` (what I ran, what the checks said, and what the checks said *before* I strengthened anything in response to that round). `seeded/evaluate.py` confirms for each change that the demonstration passes without it, that the repository's suite passes with it and that the demonstration fails with it, then runs every claimed quick check. Full table: `seeded/RESULTS.md`.\n" % len(s))
    # mutants summary
    tp = [r for r in m if r[1] == "tests-pass" and r[2] != "NONE"]
    allm = [r for r in m if r[2] != "NONE"]
    missed = [r for r in allm if r[4] not in ("—", "")]
    ok = [r for r in m if r[2] == "NONE"]
    ok_alarm = [r for r in ok if r[3] not in ("—", "")]
    lines.append("\n### Sensitivity patches (mine)\n")
    lines.append("%d property-breaking patches (%d of them leave the repository's 63 tests green): every check I expected to fire fired%s. %d behaviour-preserving patches (a hand-written byte loop instead of the 1-byte `BufReader`, reordered match arms, `std::thread::sleep` called directly instead of through the seam, a bus that returns the last instead of the first reply while addresses are distinct): %s.\n" % (
        len(allm), len(tp), "" if not missed else " except: " + "; ".join(f"{r[0]} ({r[4]})" for r in missed), len(ok),
        "no check fired" if not ok_alarm else "ALARMS: " + "; ".join(r[0] for r in ok_alarm)))
    # seeded per round
    lines.append("\n### Seeded changes (independent sub-agents)\n")
    lines.append("| round | what the sub-agents were told | changes | confirmed | caught by own check as it stood (frozen) | caught by own check now | still missed (see section 12 for why) |\n|---|---|---|---|---|---|---|\n")
    rounds = {1: "ab", 2: "cd", 3: "ef", 4: "gh", 5: "ij", 6: "kl", 7: "mn", 8: "op", 9: "qr", 10: "st", 11: "uv", 12: "wx", 13: "yz", 14: ["2a", "2b"], 15: ["2c", "2d"], 16: ["2e", "2f"]}
    told = {1: "property text only", 2: "+ \"direct edits have been tried, be subtler\"", 3: "+ list of rounds 1-2, \"aim at what random exploration misses\"", 4: "+ list of rounds 1-3, order / asymmetry / derived quantities", 5: "+ list of rounds 1-4 and how the checker works, \"beat it\"", 6: "+ list of rounds 1-5, \"stay inside the property's own quantifier\"", 7: "+ list of rounds 1-6; interleavings of two parties, two rare branches in one call, masked intermediate states, cooperating edits in two crates", 8: "+ list of rounds 1-7; position / late joiners on the bus, leftovers of an error return that trip the next call, type plumbing (conversions, Cow, wrappers), generic vs. the 11 known types", 9: "+ list of rounds 1-8; long histories, construction / drop time and reuse after an error, how the caller holds bus / pages, asymmetry between siblings, silent success", 10: "+ list of rounds 1-9; unusual order / multiplicity, coincidence of two benign events, error values, data-dependent shortcuts", 11: "+ list of rounds 1-10 AND a description of how the checker works (seams, faults, models, biases, run lengths); asked for triggers natural in use but below 1e-5 per run", 12: "+ list of rounds 1-11, the checker description updated with the ranges it now samples, and the hint to look for what no oracle compares", 13: "+ list of rounds 1-12, the checker description, and a list of what is NOT accepted (real seconds, >65535, back doors, error texts, new entry points, both-twins-alike)", 14: "property text only again (one change per property, a fresh session of the checker's author; nothing about earlier rounds or the checker)", 15: "+ the round-14 change for the same property and what a randomised fault-injecting simulator finds quickly; coincidences, value relations, history positions, ownership / iterator shapes", 16: "+ the round-15 change and the technique / level text of the property's check from MANIFEST.json (\"put your change where this description does not look\")"}
    for r, letters in rounds.items():
        rs = [x for x in s if x["name"].split("-")[1] in letters]
        if not rs:
            continue
        conf = sum(1 for x in rs if x.get("confirmed"))
        now = [x for x in rs if x["breaks_property"] in x.get("caught_by", [])]
        frozen = None
        if r >= 2:
            fr = [x for x in rs if "first_evaluation_with_checks_frozen_at_commit" in x]
            frozen = sum(1 for x in fr if x["breaks_property"] in x["first_evaluation_with_checks_frozen_at_commit"]["caught_by"])
        miss = [x["name"] for x in rs if x["breaks_property"] not in x.get("caught_by", [])]
        lines.append("| %d | %s | %d | %d | %s | %d | %s |\n" % (r, told[r], len(rs), conf, "not measured (5 were strengthened for before the first evaluation)" if frozen is None else str(frozen), len(now), " ".join(miss) or "—"))
    # cross-property table
    lines.append("\nPer property (all rounds): number of seeded changes aimed at it, how many its own quick check catches now, and which *other* checks also report them (a check may only fire on a tree where its own property is broken too — every such case of rounds 1-6 was looked at one by one, section 12 \"Cross-property alarms removed\"; from round 7 on the cross verdicts are those of the round's own full evaluation and were looked at where a check fired far from its subject, e.g. C17 / C18 on changes to `Frame::write`, which both really break):\n\n| property | seeded | caught by own check | also reported by |\n|---|---|---|---|\n")
    for p in ALL:
        rs = [x for x in s if x["breaks_property"] == p]
        own = sum(1 for x in rs if p in x.get("caught_by", []))
        others = {}
        for x in rs:
            for q in x.get("caught_by", []):
                if q != p:
                    others[q] = others.get(q, 0) + 1
        lines.append("| %s | %d | %d | %s |\n" % (p, len(rs), own, ", ".join(f"{k} ({v})" for k, v in sorted(others.items())) or "—"))
    text = "".join(lines)
    path = os.path.join(V, "DESIGN.md")
    d = open(path).read()
    a = d.index("## 13. Which checks catch which changes")
    open(path, "w").write(d[:a] + text)
    print(text[:1500])

if __name__ == "__main__":
    main()
