#!/usr/bin/env python3
"""Writes /verif/MANIFEST.json. Edit CLAIMED below when a check is added; run after every change."""
import json, subprocess, os

V = os.path.dirname(os.path.dirname(os.path.abspath(__file__)))

def hook_commits():
    out = subprocess.run(["git", "-C", "/repo", "log", "--format=%H %s"], capture_output=True, text=True).stdout
    return [l.split()[0] for l in out.splitlines() if "verif hook" in l]

TRUSTED = ("Every scenario runs without a logger and (a quarter as many runs) with a Trace-level logger installed; the whole check then "
           "runs a second time, a quarter as large, on a plain release build of the same sources (no overflow checks, no debug assertions), "
           "the first pass being on a build with both switched on as the repository's own tests have them. "
           "Trusted base: the simulator crate /verif/sim (tape, scheduler, injectors, oracles, reference models), rustc/cargo, the "
           "--cfg flipdot_verif sleep seam. Sampling: a clean batch is evidence for the runs explored, not a proof; "
           "DESIGN.md section 12 lists the seeded changes that stay out of reach and why.")

CLAIMED = {
 "C02": dict(cat="fault_enumeration", design="5/C02",
   technique="deterministic simulation of a damaged wire: sender Frame::write -> simulated line with exactly one injected fault -> receivers Frame::from_bytes and Frame::read; single-fault placements enumerated per sampled frame",
   text="For each sampled frame the complete single-fault space of the property (every position x every replacement byte, every deletion, duplication, adjacent swap of unequal characters, every proper prefix) is enumerated on the line the real writer produced; every damaged line is decoded directly and read through the real stream reader under injected EINTR. Oracle: an error, or exactly the original frame; an accepted line must itself be consistent (declared length = data bytes, bytes sum to 0); and lines written directly with a wrong declared length (off by 1, 128, 256, 512, zero-extended) or any of the 255 wrong checksums must be rejected. Enumeration is complete per frame; frames are sampled (including maximal-length frames, frames whose data embeds another frame, and frames that extend the frame the receiver decoded just before). In part of the runs a related valid frame is decoded before every damaged line (a decoder may keep state between calls), and every stream read is repeated with a valid frame queued behind the damaged line, which must not be returned in its place.",
   note=TRUSTED),
 "C08": dict(cat="exploration", design="5/C08",
   technique="deterministic two-party protocol simulation with message-level fault injection and controller crash/restart; post-conditions on the real sign once faults stop",
   text="Phase A drives 1-3 real VirtualSigns into arbitrary prior states with real Sign controllers of any type behind a fault-injecting bus (loss, duplication, reordering, damaged chunks/counts/config, foreign master) that crash at drawn message indices, plus raw traffic; all 13 protocol states, abandoned transfers and foreign-type configurations occur as prior states (probed). Phase B stops the faults and requires a fresh real controller to configure (or configure_if_needed within its contract), deliver 0-4 pages bit-exact, report the right flip style and flip, repeatedly. Exploration: prior states and page lists are sampled.",
   note=TRUSTED + " configure_if_needed is judged only where the property quantifies it (DESIGN.md section 12 for the damaged-block corner)."),
 "C09": dict(cat="exploration", design="5/C09",
   technique="deterministic simulation with chunk-level fault injection; invariant check over the recorded message history of every transfer attempt",
   text="Every configure / send_pages call of the real Sign is recorded and checked attempt by attempt: acknowledgement before data, per-item offsets 0,16,32.., chunk concatenation equals the item, count equals chunks since the request, result query only after the count, configuration = the type's 16-byte block. Retries are provoked by the real VirtualSign under lost/short/long/damaged chunks and by a scripted stub (arbitrary page sizes, 0..9 pages, one 65536-byte item reaching offset 0xFFF0). Exploration: inputs and fault sequences are sampled.",
   note=TRUSTED),
 "C10": dict(cat="exploration", design="5/C10",
   technique="deterministic simulation of the controller against an adversarial bus (every reply drawn from the full reply alphabet); lock-step refinement against an executable reference model of the documented protocol",
   text="The real Sign runs each operation against a bus stub whose every answer is drawn from the complete reply alphabet (own/foreign state reports and acks, wrong-operation acks, silence, controller-side messages, unknown frames, bus errors), biased per run so that full transfers, retries, resets and polling loops are reached. Runs are 1-3 calls on one Sign object; replies include echoes of the request, several kinds of bus error and (rarely) hundreds of in-progress answers in a row; page lists come in mixed sizes and as lazy iterators. At each step the emitted message must equal what the reference model prescribes and the call must end when and how the model ends. Exploration: reply scripts are sampled (millions per batch), not enumerated.",
   note=TRUSTED + " The reference model pins current behaviour at three documented-as-open points (DESIGN.md C10)."),
 "C11": dict(cat="exploration", design="5/C11",
   technique="deterministic simulation against an adversarial bus; history invariants (fail-stop, own address, bounded justified retries, confirmed success) checked on every recorded conversation",
   text="Same adversarial simulation as C10 with its own seed stream, judged by six invariants evaluated on the recorded conversation only (no reference conversation): own address on everything emitted, bus error final and propagated, disallowed reply final and reported, at most three attempts with each retry justified by an own 'failed' report, success only after an own 'received' report, foreign addresses never treated as own.",
   note=TRUSTED),
 "C12": dict(cat="exploration", design="5/C12",
   technique="deterministic simulation: seeded traffic + message-level fault injection into real VirtualSign(s), catch_unwind oracle, tape shrinking and replay",
   text="Seeded simulation of a bus of 1-3 real VirtualSigns under hostile traffic: real Sign controllers behind a fault-injecting bus (loss, reply loss, duplication, reordering, short/long chunks, damaged offsets/counts/config blocks, foreign master, controller crash) mixed with a state-aware raw generator over the whole alphabet, plus flood runs that take the chunk counter past 65535, transfers of 200-700 tiny pages, and a bus holding no sign at all. Oracle: no delivery ever unwinds. Exploration level because histories are sampled (run counts are in the evidence file), not enumerated.",
   note=TRUSTED),
 "C14": dict(cat="exploration", design="5/C14",
   technique="deterministic simulation of a shared bus: several real controllers on threads under a seeded baton-passing scheduler (message-granular interleaving), non-interference and solo-shadow oracles after every delivered message",
   text="1-4 real VirtualSigns on one real VirtualSignBus are driven concurrently by 1-4 real Sign controllers (some addressed to nobody) and a raw traffic task; each runs on its own OS thread but only the baton holder runs, and the seeded scheduler decides at every message who proceeds, so two transfers interleave chunk by chunk. After each delivered message: no sign other than the addressed one changed (state, type, pages); the reply is None for absent addresses, else carries that address and equals the reply of a shadow bus holding only that sign; every sign stays observationally equal (state, type, pages, replies) to a twin that is fed only the traffic concerning that sign (messages addressed to it, and unaddressed data messages arriving while it is receiving), which also exposes hidden cross-talk that only shows later. Exploration: populations, workloads and schedules are sampled.",
   note=TRUSTED),
 "C15": dict(cat="fault_enumeration", design="5/C15",
   technique="deterministic stream-fault simulation: Frame::read / Frame::write over a simulated stream with fragmentation, EINTR, short and zero writes, EOF and a hard error at every I/O call index",
   text="Real Frame::read is run over simulated streams of several lines (valid, damaged, garbage, LF-only, CR-at-EOF, non-ASCII digits, noise bursts of several KiB) plus trailing bytes; after every call the bytes handed out by the stream must equal the index just past the first line feed and the result must equal decoding exactly that line. Fragment sizes and EINTR are drawn; then a hard error, and separately a single interrupted call, is placed at every I/O call index in turn, and for short streams every composition into fragment sizes is enumerated. Real Frame::write is run against sinks that accept a drawn number of bytes and interrupt, and then fail, accept zero bytes, interrupt once or accept a single byte at every call index in turn. Fault placements are exhaustive per case; cases are sampled.",
   note=TRUSTED),
 "C16": dict(cat="fault_enumeration", design="5/C16",
   technique="deterministic port-fault simulation: real SerialSignBus over a simulated serial device, failure injected at each port operation, oracle over the port's operation log",
   text="Conversations of 1-5 messages (every message kind x reply-line kind: known, unknown, malformed, bad checksum, wrong length, timeout, EOF) run on ONE real SerialSignBus over the simulated port with fragmented reads, EINTR and short writes (the port also takes gather writes natively, so a short write may end between two buffers); earlier steps may suffer a port failure so that leftovers meet the next exchange; then the last step gets a hard failure at every port operation index in turn. Reply lines also come in lower / mixed case, blank, bare-LF, partial and as KiB-long noise, and the simulator uses its own knowledge of each line it wrote instead of the tree's decoder. Judged on the port log: exactly the frame encoding + CRLF written once, a read iff hello/query/request, exactly one line consumed (a sentinel line stays), result = decoding of that line, failures never turned into Ok. Placements exhaustive per case; cases sampled.",
   note=TRUSTED),
 "C17": dict(cat="exploration", design="5/C17",
   technique="deterministic two-node simulation over a simulated serial line: real controller and real ODK bridge on threads under a seeded scheduler with simulated clock; twin execution directly on the bus as oracle; per-line oracle at the bridge",
   text="The complete serial path (real Sign, SerialSignBus, Frame codec, simulated full-duplex line with fragmentation / EINTR / short writes / pipelining / line time, real Odk, real VirtualSignBus) runs as two nodes whose every port operation is a scheduling point decided by the tape; port timeouts and the 30/100 ms pacing run on the simulated clock. A twin performs the same operation sequence directly on an identical bus; after each operation success must match success (and flip style) and every sign's state, type and pages must be equal. A second scenario feeds valid (upper, lower, mixed case), unknown (a quarter of them a real one-byte command's frame with bytes appended) and undecodable lines (bad checksum, bare LF, blank, non-ASCII digits, a sign character in place of a leading zero, long noise) into the bridge, in front of the real virtual bus or of a scripted bus whose replies are drawn (nothing, the request itself, any message), and checks forwarding, write-back and error reporting line by line against what the simulator knows it wrote. Exploration: workloads and schedules are sampled.",
   note=TRUSTED + " Error variants are not compared across paths (silence = Ok(None) directly, read timeout over serial)."),
 "C18": dict(cat="exploration", design="5/C18",
   technique="deterministic simulation with a simulated clock behind the sleep seam; intervals measured at the simulated port's write/read boundaries (simulated + real monotonic time)",
   text="Sequences of messages with scripted replies run on a real SerialSignBus whose pacing sleeps advance a simulated clock; the far end answers with simulated (and, rarely, a few real milliseconds of) latency; every interval is simulated time plus real elapsed time, so a tree that bypasses the seam or consults the real clock is still measured. Asserted: >= 30 ms from the end of a data chunk's write to the next write and to the return; >= 100 ms from receiving an in-progress report to the return; every other exchange < 30 ms (minimum over repeated trials). A quarter of the sequences run with the calling thread holding an unpark token; some meet a port whose flush fails or whose write / read blocks in real time.",
   note=TRUSTED),
 "C20": dict(cat="fault_enumeration", design="5/C20",
   technique="deterministic device-configuration fault simulation: full product of prior port settings x entry points x failure at each configuration call",
   text="configure_port, SerialSignBus::try_new and Odk::try_new run on a simulated serial device for the full product of prior settings representable by the settings type (12 baud classes x 4 x 3 x 2 x 3) with a failure injected at none / read_settings / set_baud_rate / write_settings / set_timeout. Without failure the device must end at 19200 8N1 without flow control and the right timeout; with a failure (one of seven error kinds, drawn) the constructor must return that very error; devices that cannot report their speed, speeds aliasing 19200 in narrower integers, sub-millisecond and huge caller timeouts, a second setup of the same port, and a port made of two halves that implements SerialPort itself and runs the setup closure once per half (both halves must end configured) are included. The product is exhaustive; BaudOther values and timeouts are sampled.",
   note=TRUSTED),
 "C13": dict(cat="exploration", design="5/C13",
   technique="deterministic simulation: lock-step refinement of real VirtualSign(s) against an executable reference state machine under seeded traffic and fault injection",
   text="Same traffic as C12; after every delivered message the real signs' reply, state(), sign_type() and pages() are compared with an executable reference model of the sign-side state machine, plus the direct invariant that every stored page is a complete page of the configured size. Exploration level: histories are sampled.",
   note=TRUSTED + " The model's legality table is a reviewed transcription of the pinned tree (DESIGN.md C13); transfers stay below 65536 chunks."),
}

NA = {
 "C01": "pure codec round-trip of one Frame value: quantified over inputs only; no stream, party, fault, schedule or clock for a simulator to own (DESIGN.md section 6)",
 "C03": "pure decoder totality/strictness over byte strings: inputs only; would be input generation, not simulation (DESIGN.md section 6)",
 "C04": "pure Frame->Message->Frame mapping and code table: inputs only (DESIGN.md section 6)",
 "C05": "pure Message->Frame->bytes->Frame->Message mapping: inputs only (DESIGN.md section 6)",
 "C06": "operations on a single-owner in-memory Page value; no other party, I/O, fault or interleaving (DESIGN.md section 6)",
 "C07": "pure layout arithmetic of Page::new / from_bytes: inputs only (DESIGN.md section 6)",
 "C19": "pure table consistency of SignType and totality of SignType::from_bytes: inputs/configurations only (DESIGN.md section 6)",
}

PLANNED = ["C02", "C08", "C09", "C10", "C11", "C14", "C15", "C16", "C17", "C18", "C20"]

def main():
    for pid in PLANNED:
        if pid not in CLAIMED:
            NA[pid] = "not claimed yet: its simulation check is designed (DESIGN.md section 5) but not built at this commit"
    checks = []
    for pid in sorted(CLAIMED):
        c = CLAIMED[pid]
        checks.append({
            "property_id": pid,
            "quick_cmd": f"./check {pid} quick",
            "thorough_cmd": f"./check {pid} thorough",
            "evidence_file": f"/verif/evidence/{pid}.json",
            "replay_cmd_template": "./check replay {path}",
            "engine": "flipdot-sim",
            "level_claimed": {"category": c["cat"], "text": c["text"], "design_ref": "DESIGN.md section " + c["design"]},
            "level_note": c["note"],
            "technique": c["technique"],
        })
    m = {
        "version": 1,
        "setup_cmd": "cd /verif && ./check build",
        "hooks": {
            "guard": "flipdot_verif",
            "enable": "RUSTFLAGS=\"--cfg flipdot_verif --check-cfg cfg(flipdot_verif)\" (rustc cfg, set by /verif/check; no cargo feature, /repo's Cargo.lock untouched)",
            "baseline_off_cmd": "cd /repo && cargo test --workspace --no-fail-fast --offline",
            "source_commits": hook_commits(),
            "add_only": True,
        },
        "engines": [{
            "name": "flipdot-sim",
            "path": "/verif/sim",
            "serves_properties": sorted(CLAIMED),
            "kind_free_text": "deterministic simulator with fault injection: one seeded choice tape decides workload, faults, replies, read/write sizes and scheduling; real flipdot code on both ends; tape shrinking; replay files",
        }],
        "checks": checks,
        "notes": "Exit codes: 0 held, 1 violation (VIOLATION line + replay file), 2 harness error (build failure, replay mismatch, simulator panic). VERIF_SEED selects the batch (default 20260926). See DESIGN.md.",
        "not_applicable": [{"property_id": k, "reason": v} for k, v in sorted(NA.items())],
    }
    with open(os.path.join(V, "MANIFEST.json"), "w") as f:
        json.dump(m, f, indent=1)
        f.write("\n")

if __name__ == "__main__":
    main()
