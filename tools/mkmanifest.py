#!/usr/bin/env python3
"""Writes /verif/MANIFEST.json. Edit CLAIMED below when a check is added; run after every change."""
import json, subprocess, os

V = os.path.dirname(os.path.dirname(os.path.abspath(__file__)))

def hook_commits():
    out = subprocess.run(["git", "-C", "/repo", "log", "--format=%H %s"], capture_output=True, text=True).stdout
    return [l.split()[0] for l in out.splitlines() if "verif hook" in l]

TRUSTED = ("Trusted base: the simulator crate /verif/sim (tape, scheduler, injectors, oracles), rustc/cargo, "
           "and that the build profile (opt-level 2, overflow-checks, debug-assertions, --cfg flipdot_verif) behaves like the "
           "profile the test suite uses. Sampling: a clean batch is evidence for the runs explored, not a proof.")

CLAIMED = {
 "C12": dict(cat="exploration", design="5/C12",
   technique="deterministic simulation: seeded traffic + message-level fault injection into real VirtualSign(s), catch_unwind oracle, tape shrinking and replay",
   text="Seeded simulation of a bus of 1-3 real VirtualSigns under hostile traffic: real Sign controllers behind a fault-injecting bus (loss, reply loss, duplication, reordering, short/long chunks, damaged offsets/counts/config blocks, foreign master, controller crash) mixed with a state-aware raw generator over the whole alphabet, plus flood runs that take the chunk counter past 65535. Oracle: no delivery ever unwinds. Exploration level because histories are sampled (50k quick / 5M thorough), not enumerated.",
   note=TRUSTED),
 "C13": dict(cat="exploration", design="5/C13",
   technique="deterministic simulation: lock-step refinement of real VirtualSign(s) against an executable reference state machine under seeded traffic and fault injection",
   text="Same traffic as C12; after every delivered message the real signs' reply, state(), sign_type() and pages() are compared with an executable reference model of the sign-side state machine, plus the direct invariant that every stored page is a complete page of the configured size. Exploration level: histories are sampled.",
   note=TRUSTED + " The model's legality table is a reviewed transcription of the pinned tree (DESIGN.md C13); transfers stay below 65536 chunks."),
}

NA = {
 "C01": "pure codec round-trip of one Frame value: quantified over inputs only; no stream, party, fault, schedule or clock for a simulator to own (DESIGN.md section 6)",
 "C03": "pure decoder totality/strictness over byte strings: inputs only; would be input generation, not simulation (DESIGN.md section 6)",
 "C04": "pure Frame->Message->Frame mapping and code table: inputs only (DESIGN.md section 6)",
 "C05": "pure Message->Frame->bytes->Frame->Message mapping: inputs only (DESIGN.md section 6)",
 "C06": "operations on a single-owner in-memory Page value; no other party, I/O, fault or interleaving (DESIGN.md section 6)",
 "C07": "pure layout arithmetic of Page::new / from_bytes: inputs only (DESIGN.md section 6)",
 "C19": "pure table consistency of SignType and totality of SignType::from_bytes: inputs/configurations only (DESIGN.md section 6)",
}

PLANNED = ["C02", "C08", "C09", "C10", "C11", "C14", "C15", "C16", "C17", "C18", "C20"]

def main():
    for pid in PLANNED:
        if pid not in CLAIMED:
            NA[pid] = "not claimed yet: its simulation check is designed (DESIGN.md section 5) but not built at this commit"
    checks = []
    for pid in sorted(CLAIMED):
        c = CLAIMED[pid]
        checks.append({
            "property_id": pid,
            "quick_cmd": f"./check {pid} quick",
            "thorough_cmd": f"./check {pid} thorough",
            "evidence_file": f"/verif/evidence/{pid}.json",
            "replay_cmd_template": "./check replay {path}",
            "engine": "flipdot-sim",
            "level_claimed": {"category": c["cat"], "text": c["text"], "design_ref": "DESIGN.md section " + c["design"]},
            "level_note": c["note"],
            "technique": c["technique"],
        })
    m = {
        "version": 1,
        "setup_cmd": "cd /verif && ./check build",
        "hooks": {
            "guard": "flipdot_verif",
            "enable": "RUSTFLAGS=\"--cfg flipdot_verif --check-cfg cfg(flipdot_verif)\" (rustc cfg, set by /verif/check; no cargo feature, /repo's Cargo.lock untouched)",
            "baseline_off_cmd": "cd /repo && cargo test --workspace --no-fail-fast --offline",
            "source_commits": hook_commits(),
            "add_only": True,
        },
        "engines": [{
            "name": "flipdot-sim",
            "path": "/verif/sim",
            "serves_properties": sorted(CLAIMED),
            "kind_free_text": "deterministic simulator with fault injection: one seeded choice tape decides workload, faults, replies, read/write sizes and scheduling; real flipdot code on both ends; tape shrinking; replay files",
        }],
        "checks": checks,
        "notes": "Exit codes: 0 held, 1 violation (VIOLATION line + replay file), 2 harness error (build failure, replay mismatch, simulator panic). VERIF_SEED selects the batch (default 20260926). See DESIGN.md.",
        "not_applicable": [{"property_id": k, "reason": v} for k, v in sorted(NA.items())],
    }
    with open(os.path.join(V, "MANIFEST.json"), "w") as f:
        json.dump(m, f, indent=1)
        f.write("\n")

if __name__ == "__main__":
    main()
